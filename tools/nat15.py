import os, json, collections, itertools, sys
os.environ['XH_SIDE']='/var/tmp/verif-nat15.side'; open('/var/tmp/verif-nat15.side','w').close()
from harness import c15
n=0
for ver,init in itertools.product("10",(0,1,2)):
    os.environ['C15_VERSION']=ver; os.environ['C15_INIT']=str(init); c15.reconfigure()
    for f in itertools.product(range(2),repeat=3):
        for cut in range(5):
            for o1,o2 in itertools.product(range(c15.NOPS),repeat=2):
                c15.session(*f,cut,o1,o2,0,0); n+=1
sigs=collections.Counter(); ex={}
for l in open('/var/tmp/verif-nat15.side'):
    r=json.loads(l)
    if r['k']=='fail': sigs[r['sig']]+=1; ex.setdefault(r['sig'], r['detail'])
print(n,'runs')
for s,c in sorted(sigs.items()): print(c,s,str(ex[s])[:700]); print()
