import os, json, collections, itertools, sys
os.environ['XH_SIDE']='/var/tmp/verif-nat20.side'; open('/var/tmp/verif-nat20.side','w').close()
from harness import c20
n=0
for role,ext,req,two in [('action','','1','0'),('test','x-ext','1','0'),('action','x-ext','0','0'),('test','','1','1')]:
    os.environ.update(C20_ROLE=role,C20_EXT=ext,C20_REQUIRE=req,C20_TWO_SLOTS=two); c20.reconfigure()
    for s0 in range(7):
      for s1 in (range(7) if two=='1' else [0]):
        for r0 in range(3):
          for r1 in range(4):
            for combo in itertools.product(range(c20.NA), repeat=3):
                if any(combo[i]==0 and any(combo[i+1:]) for i in range(3)): continue
                c20.c20_k3(s0,s1,r0,r1,*combo); n+=1
sigs=collections.Counter(); ex={}; cls=collections.Counter()
for l in open('/var/tmp/verif-nat20.side'):
    r=json.loads(l)
    if r['k']=='fail': sigs[r['sig']]+=1; ex.setdefault(r['sig'], (r['detail'], r['args']))
    if r['k']=='tick': cls[(r.get('c') or 'skip/skip').split('/')[1]]+=1
print(n,'runs')
for s,c in sigs.most_common(): print(c,s,str(ex[s])[:700])
print(cls.most_common())
