import os, json, collections, itertools, sys
os.environ['XH_SIDE']='/var/tmp/verif-nat09.side'; open('/var/tmp/verif-nat09.side','w').close()
from harness import c09
n=0
for opi in range(c09.NOPS):
    os.environ['C09_OP']=str(opi); c09.reconfigure()
    for st,code,form,ti in itertools.product(range(3),range(c09.NCODES),range(3),range(c09.NTEXTS)):
        if form==0 and ti: continue
        c09.c09_pool(st,code,form,ti); n+=1
sigs=collections.Counter(); ex={}
for l in open('/var/tmp/verif-nat09.side'):
    r=json.loads(l)
    if r['k']=='fail': sigs[r['sig']]+=1; ex.setdefault(r['sig'], r['detail'])
print(n,'runs')
for s,c in sorted(sigs.items()): print(c,s,str(ex[s])[:500])
