import os, json, collections, itertools, sys
os.environ['XH_SIDE']='/var/tmp/verif-nat06.side'; open('/var/tmp/verif-nat06.side','w').close()
from harness import c06
n=0
for c1,c2,a1,a2,mt,op in itertools.product(range(c06.NC),range(len(c06.C2)),range(c06.NA),range(len(c06.A2)),[0],range(c06.NOPS)):
    if c2 and a2: continue
    if op>1 and (c2 or a2): continue
    c06.f1(c1,c2,a1,a2,mt,op); n+=1
for slot in range(c06.NSLOTS):
    os.environ['C06_SLOT']=str(slot); os.environ['C06_VLEN']='2'; c06.reconfigure()
    for v in ['ab','a"','\\a','é,',' [','a\n']:
        c06.f2(ord(v[0]),ord(v[1]),0); n+=1
sigs=collections.Counter(); ex={}
for l in open('/var/tmp/verif-nat06.side'):
    r=json.loads(l)
    if r['k']=='fail': sigs[r['sig']]+=1; ex.setdefault(r['sig'], r['detail'])
print(n,'runs')
for s,c in sorted(sigs.items()): print(c,s,str(ex[s])[:300])
