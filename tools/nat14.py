import os, json, collections, itertools, sys
os.environ['XH_SIDE']='/var/tmp/verif-nat14.side'; open('/var/tmp/verif-nat14.side','w').close()
from harness import c14
n=0
for old,new in itertools.product(range(3),range(3)):
    os.environ['C14_OLD']=str(old); os.environ['C14_NEW']=str(new); c14.reconfigure()
    for ex in itertools.product([False,True],repeat=3):
        for act in range(4):
            for bi in (0,4):
                for fs in itertools.product(range(5),repeat=5):
                    c14.rename(*ex,act,bi,*fs,0,0,0,0,0); n+=1
sigs=collections.Counter(); ex={}
for l in open('/var/tmp/verif-nat14.side'):
    r=json.loads(l)
    if r['k']=='fail': sigs[r['sig']]+=1; ex.setdefault(r['sig'], r['detail'])
print(n,'runs')
for s,c in sorted(sigs.items()): print(c,s,str(ex[s])[:800])
