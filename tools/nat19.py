import os, json, collections, itertools, sys
os.environ['XH_SIDE']='/var/tmp/verif-nat19.side'; open('/var/tmp/verif-nat19.side','w').close()
from harness import c19
n=0
for f,neg,vi,f2,mt,a in itertools.product(range(c19.NF),range(2),range(c19.NPOOL),[c19.NF,0,4,8],range(2),range(c19.NACT)):
    c19.rb_pool(f,neg,vi,f2,mt,a); n+=1
for f,neg,slot,v in []:
    c19.rb_sym(f,neg,slot,v); n+=1
sigs=collections.Counter(); ex={}
for l in open('/var/tmp/verif-nat19.side'):
    r=json.loads(l)
    if r['k']=='fail': sigs[r['sig']]+=1; ex.setdefault(r['sig'], r['detail'])
print(n,'runs')
for s,c in sorted(sigs.items()): print(c,s,str(ex[s])[:330])
