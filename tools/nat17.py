import os, json, collections, itertools, sys
os.environ['XH_SIDE']='/var/tmp/verif-nat17.side'; open('/var/tmp/verif-nat17.side','w').close()
from harness import c17
n=0
for l0,l1,nl,eol,fn,form in itertools.product(range(c17.NLINES),range(c17.NLINES),range(3),range(2),range(2),range(2)):
    c17.body(l0,l1,0,nl,eol,fn,form); n+=1
for n0,n1,cnt,act,f0,f1 in itertools.product(range(c17.NNAMES),range(c17.NNAMES),range(2),range(3),range(2),range(2)):
    c17.listing(n0,n1,0,cnt,act,f0,f1,0); n+=1
sigs=collections.Counter(); ex={}
for l in open('/var/tmp/verif-nat17.side'):
    r=json.loads(l)
    if r['k']=='fail': sigs[r['sig']]+=1; ex.setdefault(r['sig'], r['detail'])
print(n,'runs')
for s,c in sorted(sigs.items()): print(c,s,str(ex[s])[:420])
