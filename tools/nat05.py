import os, json, collections, itertools, sys
os.environ['XH_SIDE']='/var/tmp/verif-nat05.side'; open('/var/tmp/verif-nat05.side','w').close()
from harness import c05
n=0
for opi in range(c05.NOP):
    os.environ['C05_OP']=str(opi); c05.reconfigure()
    for ri in range(len(c05.CORPUS[opi])):
        L=len(c05.CORPUS[opi][ri])+len(c05.SENTINEL)
        for c1 in range(L):
            for cap in range(len(c05.CAPS)):
                c05.l2(ri,c1,c1,cap); n+=1
sigs=collections.Counter(); ex={}
for l in open('/var/tmp/verif-nat05.side'):
    r=json.loads(l)
    if r['k']=='fail': sigs[r['sig']]+=1; ex.setdefault(r['sig'], r['detail'])
print(n,'runs', c05.recv_call_sites())
for s,c in sorted(sigs.items()): print(c,s,str(ex[s])[:900])
