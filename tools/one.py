import sys, time
sys.path.insert(0,'/verif')
from engine.xh import Cond, _run_cond, read_side
import os
os.makedirs('/verif/work/one',exist_ok=True)
env=dict(a.split('=') for a in sys.argv[3:])
c=Cond('one', sys.argv[1], sys.argv[2], env=env, timeout=300)
try: os.unlink('/verif/work/one/one.side')
except: pass
_run_cond(c,'/verif/work/one','CXX')
r=read_side(c.side)
print(c.verdict, round(c.wall,1), 'paths', sum(1 for x in r if x['k']=='tick'), c.message[-300:] if c.verdict!='confirmed' else '')
for x in r:
    if x['k']=='fail': print(x['sig'], str(x.get('detail'))[:300]); break
