import os, json, collections, itertools, sys
os.environ['XH_SIDE']='/var/tmp/verif-nat4.side'; open('/var/tmp/verif-nat4.side','w').close()
os.environ.update(T1_MODE=sys.argv[1])
from harness import c01gen as G
n=0
for sc in range(G.NCORPUS):
    os.environ['T4_SCRIPT']=str(sc); G.reconfigure()
    nt=len(G.CORPUS_TOKENS[sc])
    for kind in range(4+len(G.EDIT_TOKENS)):
        for pos in (range(nt) if kind else [0]):
            for eol in range(2):
                for c in range(3):
                    G.t4(kind,pos,eol,c,0,0) if kind else G.t4(0,eol,c,0,0,0); n+=1
sigs=collections.Counter(); ex={}; cls=collections.Counter()
for l in open('/var/tmp/verif-nat4.side'):
    r=json.loads(l)
    if r['k']=='fail': sigs[r['sig']]+=1; ex.setdefault(r['sig'], r['detail'])
    if r['k']=='tick': cls[(r.get('c') or r['o'])[:28]]+=1
print(n)
for s,c in sorted(sigs.items()): print(c,s,str(ex[s])[:700]); print()
print(cls.most_common(14))
