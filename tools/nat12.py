import os, json, collections, itertools, sys
os.environ['XH_SIDE']='/var/tmp/verif-nat12.side'; open('/var/tmp/verif-nat12.side','w').close()
os.environ['C12_MODE']=sys.argv[1]
from harness import c12
L=int(sys.argv[2])
f=getattr(c12,'hist%d'%L)
n=0
# canonical enumeration of concrete ops
def ops():
    for op in range(c12.NOPS):
        opn=c12.OPS[op]
        for n1 in range(3):
            for n2 in (range(3) if opn in('update','replace') else [0]):
                for k in (range(3) if opn in ('add','update','replace') else [0]):
                    for d in (range(2) if opn=='move' else (range(4 if sys.argv[1]=='c11' else 2) if opn=='replace' else [0])):
                        yield (op,n1,n2,k,d)
allops=list(ops())
print(len(allops),'ops')
for h in itertools.product(allops, repeat=L):
    # histories only interesting if the first op is an add (others on empty set trivial) -- still run all for L<=2
    if L>=3 and c12.OPS[h[0][0]]!='add': continue
    f(*[x for o in h for x in o]); n+=1
sigs=collections.Counter(); ex={}
for l in open('/var/tmp/verif-nat12.side'):
    r=json.loads(l)
    if r['k']=='fail': sigs[r['sig']]+=1; ex.setdefault(r['sig'], r['detail'])
print(n,'runs')
for s,c in sigs.most_common(): print(c,s,str(ex[s])[:900])
