import os, sys, json, itertools, collections
os.environ['XH_SIDE']='/var/tmp/verif-nat7.side'
open('/var/tmp/verif-nat7.side','w').close()
from harness import c07
n=0
import random
random.seed(1)
for c in range(c07.NCAR):
    # all subsets of the extensions that appear in the R1 uses + a few random
    for trial in range(40):
        bools=[random.random()<0.6 for _ in range(13)]
        c07.ext_carrier(c,*bools); n+=1
    c07.ext_carrier(c,*([True]*13)); c07.ext_carrier(c,*([False]*13))
sigs=collections.Counter(); ex={}; cls=collections.Counter()
for l in open('/var/tmp/verif-nat7.side'):
    r=json.loads(l)
    if r['k']=='fail':
        sigs[r['sig']]+=1; ex.setdefault(r['sig'], r['detail'])
    if r['k']=='tick': cls[(r.get('c') or 'skip').split('/')[0]]+=1
print(n,"runs", c07.NCAR, "carriers")
for s,c in sigs.most_common(): print(c, s, str(ex[s])[:500])
print(cls.most_common(30))
from sievelib.parser import Parser
for c in c07.CARRIERS:
    p=Parser(); 
    if not p.parse(c07.P.REQ_ALL+c): print(c, p.error)
