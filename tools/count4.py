import os, sys
os.environ.update(T4_DEPTH=sys.argv[1],T4_TDEPTH=sys.argv[2],T4_NTOP=sys.argv[3],T4_MAXTAGS=sys.argv[4],T4_EDIT=sys.argv[5],T4_TOP=sys.argv[6] if len(sys.argv)>6 else '')
from harness import c01gen as G
class Need(Exception):
    def __init__(s,n): s.n=n
class Enum:
    def __init__(s,prefix): s.p=prefix; s.k=0; s.taken=[]
    def next(s,n,kind=None):
        if s.k < len(s.p):
            v=s.p[s.k]; s.k+=1; s.taken.append(v); return v
        raise Need(n)
count=0; maxlen=0
stack=[[]]
import collections
lens=collections.Counter()
while stack:
    pre=stack.pop()
    L=Enum(pre)
    try:
        toks=G.gen_script(L); toks2,e=G.apply_edit(L,toks); G.render(L,toks2)
        count+=1; lens[len(pre)]+=1; maxlen=max(maxlen,len(pre))
        if count>400000: print('>400000'); break
    except Need as nd:
        for v in range(nd.n): stack.append(pre+[v])
print(count, maxlen, sorted(lens.items())[-5:])
