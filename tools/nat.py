import os, sys, json, itertools, collections
os.environ['XH_SIDE']='/var/tmp/verif-nat.side'
open('/var/tmp/verif-nat.side','w').close()
os.environ['T1_VOCAB']=sys.argv[1]; os.environ['T1_MODE']=sys.argv[2]; os.environ['T1_CTX']='0'; os.environ['T1_SEP']=sys.argv[4] if len(sys.argv)>4 else 'lf'
from harness import c01
N=int(sys.argv[3])
f=getattr(c01,'t1_n%d'%N)
import signal
class A(BaseException): pass
def h(*a): raise A()
signal.signal(signal.SIGALRM,h)
n=0
for combo in itertools.product(range(c01.NV), repeat=N):
    signal.alarm(5)
    try:
        f(*combo)
    except A:
        print("ALARM", [c01.VOCAB[i] for i in combo])
    signal.alarm(0)
    n+=1
sigs=collections.Counter(); ex={}
cls=collections.Counter()
for l in open('/var/tmp/verif-nat.side'):
    r=json.loads(l)
    if r['k']=='fail':
        sigs[r['sig']]+=1
        ex.setdefault(r['sig'], r['detail'])
    if r['k']=='tick': cls[r.get('c')]+=1
print(n,"runs")
for s,c in sigs.most_common(): print(c, s, str(ex[s])[:300])
print(cls.most_common(30))
