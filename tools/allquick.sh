#!/bin/bash
cd /verif
for id in C01 C02 C03 C04 C05 C06 C07 C08 C09 C10 C11 C12 C13 C14 C15 C16 C17 C18 C19 C20; do
  s=$(date +%s); out=$(bin/check $id --tier quick 2>&1); rc=$?; e=$(date +%s)
  echo "$id rc=$rc wall=$((e-s))s $(echo "$out" | grep -E '^\[C[0-9]+ quick\]')"
  echo "$out" | grep -E "VIOLATION|violation signature|MACHINERY|not-exhausted|refuted" | head -5
done
echo ALLDONE
