import os, json, collections, itertools
os.environ['XH_SIDE']='/var/tmp/verif-nat18.side'; open('/var/tmp/verif-nat18.side','w').close()
from harness import c18
for pi in range(c18.NP):
    os.environ['U2_PREFIX']=str(pi); c18.reconfigure()
    for nl,sp,crlf,tok in itertools.product(range(4),range(4),range(2),range(c18.NO)):
        c18.u2(nl,sp,crlf,tok)
sigs=collections.Counter(); ex={}
for l in open('/var/tmp/verif-nat18.side'):
    r=json.loads(l)
    if r['k']=='fail': sigs[r['sig']]+=1; ex.setdefault(r['sig'], r['detail'])
for s,c in sigs.most_common(): print(c,s,str(ex[s])[:600])
print('done')
