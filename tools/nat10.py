import os, json, collections, itertools, sys, random
os.environ['XH_SIDE']='/var/tmp/verif-nat10.side'; open('/var/tmp/verif-nat10.side','w').close()
from harness import c10
random.seed(int(sys.argv[1]) if len(sys.argv)>1 else 1)
n=0
for _ in range(int(sys.argv[2]) if len(sys.argv)>2 else 20000):
    calls=[random.choice([0,1,0,1,2,3,7,10,11]) for _ in range(3)]
    cred=random.randrange(c10.NCREDS)
    xs=[random.choice([0,0,0,1,2,3,4,5,6,7]) for _ in range(20)]
    c10.hist(*calls,cred,*xs); n+=1
sigs=collections.Counter(); ex={}
for l in open('/var/tmp/verif-nat10.side'):
    r=json.loads(l)
    if r['k']=='fail': sigs[r['sig']]+=1; ex.setdefault(r['sig'], r['detail'])
print(n,'runs')
for s,c in sorted(sigs.items()): print(c,s,str(ex[s])[:1200]); print()
