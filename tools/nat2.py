import os, sys, json, itertools, collections
os.environ['XH_SIDE']='/var/tmp/verif-nat2.side'
open('/var/tmp/verif-nat2.side','w').close()
os.environ['T1_MODE']=sys.argv[1]
K=int(sys.argv[2])
from harness import c01, pcommon as P
cmds=sys.argv[3:] or P.t2_commands()
n=0
for c in cmds:
    os.environ['T2_CMD']=c; c01.reconfigure()
    f=getattr(c01,'t2_k%d'%K)
    for combo in itertools.product(range(c01.NA), repeat=K):
        # skip non-canonical (after terminator everything must be 0)
        if any(combo[i]==0 and any(combo[i+1:]) for i in range(K)): continue
        f(*combo); n+=1
sigs=collections.Counter(); ex={}; cls=collections.Counter()
for l in open('/var/tmp/verif-nat2.side'):
    r=json.loads(l)
    if r['k']=='fail':
        sigs[r['sig']]+=1; ex.setdefault(r['sig'], r['detail'])
    if r['k']=='tick': cls[(r.get('c') or 'skip').split('/')[1] if r.get('c') else 'skip']+=1
print(n,"runs")
for s,c in sigs.most_common(): print(c, s, str(ex[s])[:400])
print(cls.most_common(30))
