"""C08: each client call puts exactly one well-formed command on the wire.
Names and contents are built from symbolic code points and flow through the public method,
__send_command, __prepare_args and __prepare_content under symbolic execution; the bytes handed
to sendall are parsed by the strict RFC 5804 command parser of refs/ref_ms.py."""
import os

from engine.side import run, Violation, Skip, notrace
from harness import pcommon as P
from harness.mcommon import FakeSock, make_client
from refs import ref_ms as R
from sievelib import managesieve as MS

OK = b'OK "fine"\r\n'
# (label, verb, call(client, name, other, size), expected args builder)
OPS = [
    ("getscript", b"GETSCRIPT", lambda c, a, b, n: c.getscript(a), lambda a, b, n: [a.encode("utf-8")]),
    ("deletescript", b"DELETESCRIPT", lambda c, a, b, n: c.deletescript(a), lambda a, b, n: [a.encode("utf-8")]),
    ("setactive", b"SETACTIVE", lambda c, a, b, n: c.setactive(a), lambda a, b, n: [a.encode("utf-8")]),
    ("havespace", b"HAVESPACE", lambda c, a, b, n: c.havespace(a, n), lambda a, b, n: [a.encode("utf-8"), n]),
    ("putscript", b"PUTSCRIPT", lambda c, a, b, n: c.putscript(a, b), lambda a, b, n: [a.encode("utf-8"), b.encode("utf-8")]),
    ("putscript-content", b"PUTSCRIPT", lambda c, a, b, n: c.putscript(b, a), lambda a, b, n: [b.encode("utf-8"), a.encode("utf-8")]),
    ("checkscript", b"CHECKSCRIPT", lambda c, a, b, n: c.checkscript(a), lambda a, b, n: [a.encode("utf-8")]),
    ("renamescript-old", b"RENAMESCRIPT", lambda c, a, b, n: c.renamescript(a, b), lambda a, b, n: [a.encode("utf-8"), b.encode("utf-8")]),
    ("renamescript-new", b"RENAMESCRIPT", lambda c, a, b, n: c.renamescript(b, a), lambda a, b, n: [b.encode("utf-8"), a.encode("utf-8")]),
]
NOPS = len(OPS)
OPI = int(os.environ.get("C08_OP", "0"))
VLEN = int(os.environ.get("C08_VLEN", "1"))
OTHERS = ["x", 'q"\\', "é", ""]
SIZES = [0, 1, 10, 4096, 2 ** 31, 2 ** 64 + 1, -1]


def reconfigure():
    global OPI, VLEN
    OPI = int(os.environ.get("C08_OP", "0"))
    VLEN = int(os.environ.get("C08_VLEN", "1"))


def _okcp(c):
    return 0 <= c < 0x110000 and not (0xD800 <= c <= 0xDFFF)


def _special(v):
    for ch, name in (('"', "quote"), ("\\", "backslash"), ("\r", "CR"), ("\n", "LF"), ("\0", "NUL"), ("{", "brace")):
        for x in v:
            if x == ch:
                return name
    return "other"


def _body(info, c0, c1, c2, other, size):
    v = ""
    if VLEN >= 1:
        v = chr(c0)
    if VLEN >= 2:
        v = v + chr(c1)
    if VLEN >= 3:
        v = v + chr(c2)
    oi = P.decode(other, len(OTHERS))
    b = OTHERS[oi]
    size = SIZES[P.decode(size, len(SIZES))] if OPS[OPI][0] == "havespace" else 0
    label, verb, call, expect = OPS[OPI]
    sock = FakeSock([(b"{5}\r\nkeep;\r\n" if label == "getscript" else b"") + OK], eof="timeout")
    c = make_client(sock, version=True)
    info["steps"] = VLEN + 1
    info["cls"] = label
    try:
        call(c, v, b, size)
        refused = False
    except MS.Error:
        refused = True
    except Exception as e:
        from engine.side import site_of
        raise Violation("C08/%s/raises/%s@%s" % (label, type(e).__name__, site_of(e)),
                        lambda e=e: {"operation": label, "value": v, "other": b, "size": size, "exc": repr(e)})
    wire = sock.written()
    if refused:
        if len(wire) != 0:
            raise Violation("C08/%s/refused-after-writing" % label,
                            lambda: {"operation": label, "value": v, "wire": wire})
        return
    try:
        cmds = R.parse_commands(wire)
    except R.ProtoError as e:
        raise Violation("C08/%s/malformed-wire/%s" % (label, _special(v)),
                        lambda e=e: {"operation": label, "value": v, "other": b, "size": size, "wire": wire, "why": str(e)})
    if len(cmds) != 1:
        raise Violation("C08/%s/not-one-command/%s" % (label, _special(v)),
                        lambda: {"operation": label, "value": v, "wire": wire, "commands": repr(cmds)})
    gverb, gargs = cmds[0]
    if gverb != verb:
        raise Violation("C08/%s/wrong-verb" % label, lambda: {"value": v, "wire": wire})
    want = expect(v, b, size)
    if len(gargs) != len(want):
        raise Violation("C08/%s/argument-count/%s" % (label, _special(v)), lambda: {"value": v, "wire": wire})
    i = 0
    while i < len(want):
        if gargs[i] != want[i]:
            raise Violation("C08/%s/argument-value/%s" % (label, _special(v)),
                            lambda i=i: {"operation": label, "value": v, "wire": wire, "decoded": repr(gargs[i]), "passed": repr(want[i])})
        i += 1


def c08(c0: int, c1: int, c2: int, other: int, size: int) -> bool:
    """
    pre: _okcp(c0) if VLEN >= 1 else c0 == 0
    pre: _okcp(c1) if VLEN >= 2 else c1 == 0
    pre: _okcp(c2) if VLEN >= 3 else c2 == 0
    pre: 0 <= other < len(OTHERS) and 0 <= size < len(SIZES)
    post: _
    """
    return run("c08", _body, dict(c0=c0, c1=c1, c2=c2, other=other, size=size))
