"""C19: what you put into a filter is what you read back.
rb_sym: one value slot holds a symbolic str (<= 3 chars) that flows through addfilter, the command
objects, args_as_tuple and tools.to_list under symbolic execution; read-back is compared with the
input on the original set and after disablefilter.
rb_pool: everything concrete per path (forms x negation x value pool x second condition x
matchtype x actions), additionally on the set reloaded from its rendering."""
import os

from engine.side import run, Violation, Skip, notrace
from harness import pcommon as P
from sievelib.factory import FiltersSet
from sievelib.parser import Parser

# each form: (label, builder(v, neg) -> condition tuple)


def _mt(base, neg):
    return ":not" + base[1:] if neg else base


FORMS = [
    ("header-value", lambda v, n: ("Subject", _mt(":contains", n), v)),
    ("header-name", lambda v, n: (v, _mt(":is", n), "x")),
    ("header-matches", lambda v, n: ("X-H", _mt(":matches", n), v)),
    ("exists-one", lambda v, n: (("notexists" if n else "exists"), v)),
    ("exists-many", lambda v, n: (("notexists" if n else "exists"), "A", v, "C")),
    ("size", lambda v, n: ("size", ":over", "100k")),
    ("envelope-key", lambda v, n: ("envelope", _mt(":is", n), ["From"], [v])),
    ("envelope-lists", lambda v, n: ("envelope", _mt(":contains", n), ["From", "To"], ["a", v])),
    ("address", lambda v, n: ("address", _mt(":is", n), "from", v)),
    ("body-raw", lambda v, n: ("body", ":raw", _mt(":contains", n), v)),
    ("body-text-many", lambda v, n: ("body", ":text", _mt(":is", n), "k1", v)),
    ("currentdate", lambda v, n: ("currentdate", ":zone", "+0100", _mt(":is", n), "date", v)),
    ("currentdate-value", lambda v, n: ("currentdate", ":zone", "+0100", ":value", "gt", "date", v)),
]
NF = len(FORMS)
ACTIONS = [
    ("fileinto-value", lambda v: [("fileinto", v)]),
    ("fileinto-copy", lambda v: [("fileinto", ":copy", v)]),
    ("redirect", lambda v: [("redirect", v)]),
    ("reject+stop", lambda v: [("reject", v), ("stop",)]),
    ("keep", lambda v: [("keep",)]),
    ("discard+fileinto-create", lambda v: [("discard",), ("fileinto", ":create", v)]),
]
NACT = len(ACTIONS)
POOL = ["x", "a,b", "a, b", " lead", "trail ", "[x]", "a]b", "é€", "a;b", "a b c", "{", "#c", "x,", ",", "a'b", "(a)"]
NPOOL = len(POOL)
FLO = int(os.environ.get("C19_FLO", "0"))
FHI = int(os.environ.get("C19_FHI", str(NF)))
VLEN = int(os.environ.get("C19_VLEN", "1"))
QPOOL = int(os.environ.get("C19_NPOOL", str(NPOOL)))     # quick tier: a prefix of the pools
F2S = [NF, 0, 4, 8, 6, 9, 11, 1, 2, 3, 5, 7, 10, 12]
QF2 = int(os.environ.get("C19_NF2", str(len(F2S))))
QACT = int(os.environ.get("C19_NACT", str(NACT)))


def reconfigure():
    global FLO, FHI, VLEN, QPOOL, QF2, QACT
    VLEN = int(os.environ.get("C19_VLEN", "1"))
    QPOOL = int(os.environ.get("C19_NPOOL", str(NPOOL)))
    QF2 = int(os.environ.get("C19_NF2", str(len(F2S))))
    QACT = int(os.environ.get("C19_NACT", str(NACT)))
    FLO = int(os.environ.get("C19_FLO", "0"))
    FHI = int(os.environ.get("C19_FHI", str(NF)))


def _split_canon(items):
    """the sequence read back if every comma inside a value splits it (the known defect)"""
    out = []
    for c in items:
        row = []
        for x in c:
            if isinstance(x, (list, tuple)):
                row.append("[")
                for y in x:
                    row.extend(str(y).split(","))
                row.append("]")
            else:
                row.extend(str(x).split(","))
        out.append(row)
    return out


def _diagnose(want, got, kind, label=""):
    """name the cause when it is the recorded one (commas split values on read-back), else 'other'"""
    if got is None:
        return "none-returned"
    if _split_canon(got) == _split_canon(want):
        return "comma-split"
    if label == "header-name-not" and any("," in str(c[0]) for c in want):
        # the negation folding then indexes the wrong element: same root cause
        return "comma-split-negated-header-name"
    return "other"


def _sig(kind, cause, label):
    if cause.startswith("comma-split"):
        return "C19/%s/%s" % (kind, cause)         # verified cause: the form does not matter
    return "C19/%s/%s/%s" % (kind, cause, label)


def _norm(c):
    """tuples/lists compare as the suite compares them: tuple == tuple, inner lists == lists"""
    return tuple(list(x) if isinstance(x, list) else x for x in c)


def check_readback(fs, name, conds, acts, mtype, label, v, where, alabel=None):
    alabel = alabel or label
    try:
        got_c = fs.get_filter_conditions(name)
        got_a = fs.get_filter_actions(name)
        got_m = fs.get_filter_matchtype(name)
    except Exception as e:
        from engine.side import site_of
        raise Violation("C19/%s/raises/%s@%s" % (label, type(e).__name__, site_of(e)),
                        {"where": where, "conditions": repr(conds), "actions": repr(acts), "exc": repr(e)})
    want_c = [_norm(c) for c in conds]
    if got_c is None or [_norm(c) for c in got_c] != want_c:
        raise Violation(_sig("conditions", _diagnose(want_c, got_c, "conditions", label), label),
                        lambda: {"where": where, "put": repr(conds), "read": repr(got_c)})
    want_a = [tuple(a) for a in acts]
    if got_a is None or [tuple(a) for a in got_a] != want_a:
        raise Violation(_sig("actions", _diagnose(want_a, got_a, "actions"), alabel),
                        lambda: {"where": where, "put": repr(acts), "read": repr(got_a)})
    if got_m != mtype:
        raise Violation("C19/matchtype/%s" % label, {"where": where, "put": mtype, "read": got_m})


def _sym_body(info, f, neg, slot, v):
    fi = FLO + P.decode(f - FLO, FHI - FLO)
    cn = bool(P.decode(neg, 2))
    cs = P.decode(slot, 2)
    label, mk = FORMS[fi]
    if cs == 0:
        conds = [mk(v, cn)]
        acts = [("fileinto", "F")]
        lab = label + ("-not" if cn else "")
    else:
        ai = fi % NACT
        alabel, mka = ACTIONS[ai]
        conds = [("Subject", ":is", "x")]
        acts = mka(v)
        lab = alabel
    info["steps"] = 3
    info["cls"] = "%s/%d" % (lab, cs)
    fs = FiltersSet("t")
    try:
        fs.addfilter("f", conds, acts, "anyof")
    except Exception as e:
        from engine.side import site_of
        raise Violation("C19/%s/addfilter-raises/%s@%s" % (lab, type(e).__name__, site_of(e)),
                        {"conditions": repr(conds), "actions": repr(acts), "exc": repr(e)})
    check_readback(fs, "f", conds, acts, "anyof", lab, v, "original")
    fs.disablefilter("f")
    check_readback(fs, "f", conds, acts, "anyof", lab, v, "disabled")


def _okcp(c):
    return 0 < c < 0x110000 and not (0xD800 <= c <= 0xDFFF) and c != 34 and c != 92 and c != 10 and c != 13


def _sym_entry(info, f, neg, slot, c0, c1, c2):
    # the value is built from symbolic code points: its length is concrete (VLEN), its content is not
    v = chr(c0)
    if VLEN >= 2:
        v = v + chr(c1)
    if VLEN >= 3:
        v = v + chr(c2)
    _sym_body(info, f, neg, slot, v)


def rb_sym(f: int, neg: int, slot: int, c0: int, c1: int, c2: int) -> bool:
    """
    pre: FLO <= f < FHI and 0 <= neg < 2 and 0 <= slot < 2
    pre: _okcp(c0) and c0 != 39 and c0 != 58
    pre: _okcp(c1) if VLEN >= 2 else c1 == 0
    pre: _okcp(c2) if VLEN >= 3 else c2 == 0
    post: _
    """
    return run("rb_sym", _sym_entry, dict(f=f, neg=neg, slot=slot, c0=c0, c1=c1, c2=c2))


def _native_pool(fi, cn, vi, f2, mt, ai):
    v = POOL[vi]
    label, mk = FORMS[fi]
    conds = [mk(v, cn)]
    if f2 < NF:
        conds.append(FORMS[f2][1]("second", False))
    alabel, mka = ACTIONS[ai]
    acts = mka(v)
    mtype = "allof" if mt else "anyof"
    lab = label + ("-not" if cn else "")
    fs = FiltersSet("t")
    try:
        fs.addfilter("f", conds, acts, mtype)
    except Exception as e:
        from engine.side import site_of
        raise Violation("C19/%s/addfilter-raises/%s@%s" % (lab, type(e).__name__, site_of(e)),
                        {"conditions": repr(conds), "actions": repr(acts), "exc": repr(e)})
    check_readback(fs, "f", conds, acts, mtype, lab, v, "original", alabel)
    fs.disablefilter("f")
    check_readback(fs, "f", conds, acts, mtype, lab, v, "disabled", alabel)
    # edited while disabled: still reads back, still disabled, and again after enabling
    if not fs.updatefilter("f", "f", conds, acts, mtype):
        raise Violation("C19/updatefilter-while-disabled/refused", {"conditions": repr(conds)})
    check_readback(fs, "f", conds, acts, mtype, lab, v, "updated-while-disabled", alabel)
    if not fs.is_filter_disabled("f"):
        raise Violation("C19/updatefilter-while-disabled/enabled-by-update", {"conditions": repr(conds), "text": str(fs)})
    fs.enablefilter("f")
    check_readback(fs, "f", conds, acts, mtype, lab, v, "re-enabled", alabel)
    text = str(fs)
    p = Parser()
    try:
        ok = p.parse(text)
    except Exception as e:
        ok = e
    if ok is not True:
        raise Skip("rendering is not accepted by the parser (C06's matter)")
    fs2 = FiltersSet("r")
    fs2.from_parser_result(p)
    check_readback(fs2, "f", conds, acts, mtype, lab, v, "reloaded", alabel)
    return "%s|%s|%s" % (lab, alabel, text)


def _pool_body(info, f, neg, vi, f2, mt, a):
    fi = FLO + P.decode(f - FLO, FHI - FLO)
    cn = P.decode(neg, 2)
    cv = P.decode(vi, QPOOL)
    c2 = F2S[P.decode(f2, QF2)]
    cm = P.decode(mt, 2)
    ca = P.decode(a, QACT)
    info["concrete"] = dict(f=fi, neg=cn, vi=cv, f2=F2S.index(c2), mt=cm, a=ca)
    info["steps"] = 6
    info["show"] = notrace(_native_pool, fi, bool(cn), cv, c2, cm, ca)
    info["cls"] = "%d/%d/%d/%d/%d/%d" % (fi, cn, cv, c2, cm, ca)


def rb_pool(f: int, neg: int, vi: int, f2: int, mt: int, a: int) -> bool:
    """
    pre: FLO <= f < FHI and 0 <= neg < 2 and 0 <= vi < QPOOL and 0 <= f2 < QF2 and 0 <= mt < 2 and 0 <= a < QACT
    post: _
    """
    return run("rb_pool", _pool_body, dict(f=f, neg=neg, vi=vi, f2=f2, mt=mt, a=a))
