"""C01/C02/C03/C07 token-level harnesses (T1): real lexer + real parser on lazily chosen tokens.

Environment: T1_VOCAB (full|reduced), T1_CTX (index into CONTEXTS), T1_LO/T1_HI (partition of the
first token), T1_MODE (c01|c02|c03).
"""
import os
import re

from engine.side import run, Violation, Skip, notrace
from harness import pcommon as P
from refs import ref_sieve

VOCAB_NAME = os.environ.get("T1_VOCAB", "reduced")
VOCAB = P.VOCABS[VOCAB_NAME]
NV = len(VOCAB)
CTX = int(os.environ.get("T1_CTX", "0"))
LO = int(os.environ.get("T1_LO", "0"))
HI = int(os.environ.get("T1_HI", str(NV)))
MODE = os.environ.get("T1_MODE", "c01")
SEP = b"\r\n" if os.environ.get("T1_SEP") == "crlf" else b"\n"


def reconfigure():
    global VOCAB_NAME, VOCAB, NV, CTX, LO, HI, MODE, SEP
    SEP = b"\r\n" if os.environ.get("T1_SEP") == "crlf" else b"\n"
    VOCAB_NAME = os.environ.get("T1_VOCAB", "reduced")
    VOCAB = P.VOCABS[VOCAB_NAME]
    NV = len(VOCAB)
    CTX = int(os.environ.get("T1_CTX", "0"))
    LO = int(os.environ.get("T1_LO", "0"))
    HI = int(os.environ.get("T1_HI", str(NV)))
    MODE = os.environ.get("T1_MODE", "c01")


def _tokdesc(tok):
    kind, text = tok[0], tok[1]
    if kind in ("tag", "identifier"):
        return text.decode("ascii").lower()
    if kind == "multiline":
        if SEP == b"\r\n" or b"\r" in text:
            return "multiline-crlf"
        if b"$" in text:
            return "multiline-dollar"
    return kind


def _txt(b):
    return bytes(b).decode("utf-8", "backslashreplace")


ERR_RE = re.compile(r"^line (\d+): ")


def judge(mode, out, parser, rendered, ntoks_total, all_read):
    """Native comparison of the real parser's outcome with the oracles (everything concrete)."""
    # ---------------- C02: a verdict, always
    if isinstance(out, P.Hang):
        raise Violation("C02/hang", {"script": _txt(rendered)})
    if isinstance(out, Exception):
        from engine.side import site_of
        raise Violation("C02/raises/%s@%s" % (type(out).__name__, site_of(out)),
                        {"script": _txt(rendered), "exc": repr(out)})
    if out is not True and out is not False:
        raise Violation("C02/non-boolean", {"script": _txt(rendered), "ret": repr(out)})
    if out is False:
        err = getattr(parser, "error", None)
        m = ERR_RE.match(err) if isinstance(err, str) else None
        if not m or not (1 <= int(m.group(1)) <= 1 + rendered.count(b"\n")):
            raise Violation("C02/error-text", {"script": _txt(rendered), "error": repr(err)})
        ep = getattr(parser, "error_pos", None)
        if not (isinstance(ep, tuple) and len(ep) == 3 and all(type(x) is int for x in ep)):
            raise Violation("C02/error-pos", {"script": _txt(rendered), "error_pos": repr(ep)})
    else:
        if not isinstance(parser.result, list):
            raise Violation("C02/result-type", {"script": _txt(rendered)})
    if mode == "c02":
        return "accepted" if out else "rejected"
    # ---------------- oracle
    toks, lexerr = P.ref_tokens(rendered)
    if mode == "c18":
        return judge18(out, parser, rendered, toks, lexerr)
    if lexerr is not None:
        if out is True and mode in ("c03", "c04"):
            raise Skip("accepted although the reference lexer rejects: C01's matter")
        if out is True:
            raise Violation("C01/accepts-invalid/LEXICAL/%s" % lexerr.why.split(" at ")[0],
                            {"script": _txt(rendered)})
        return "rejected-lex"
    res = ref_sieve.check(toks)
    if res.taints:
        raise Skip("outside the claim: " + ",".join(res.taints))
    if mode in ("c03", "c04"):
        # these properties speak about accepted scripts only; whether the verdict itself is right is C01's matter
        if out is not True:
            return "rejected"
        if res.status != "accept":
            raise Skip("accepted although the reference rejects: C01's matter")
    if out is True:
        if res.status == "reject":
            raise Violation("C01/accepts-invalid/%s/%s" % (res.reason, res.cmd),
                            {"script": _txt(rendered), "ref": [res.reason, res.cmd, res.pos]})
        if res.status == "incomplete":
            raise Violation("C01/accepts-invalid/EOF_INCOMPLETE/%s" % res.open_cmd,
                            {"script": _txt(rendered)})
        if mode in ("c03", "c20"):
            got = tuple(P.normalise(c) for c in parser.result)
            want = P.ref_tree(res.tree)
            if got != want:
                raise Violation("C03/tree/%s" % _first_diff(got, want),
                                {"script": _txt(rendered), "got": repr(got), "want": repr(want)})
        if mode in ("c04", "c20"):
            roundtrip(parser, rendered, "C04" if mode == "c04" else "C20")
        return "accepted"
    # the parser rejected
    if res.status == "reject":
        return "rejected"
    if res.status == "incomplete" and all_read:
        return "rejected-eof"
    # rejected although the prefix it has read is viable: demonstrate with a completed script
    suffix = ref_sieve.find_completion(toks)
    if suffix is None:
        return "rejected-undemonstrated"
    full = rendered + SEP + SEP.join(t[1] for t in suffix) + SEP
    from sievelib.parser import Parser
    p2 = Parser()
    try:
        v2 = p2.parse(full)
    except Exception as e:
        v2 = e
    if v2 is True:
        return "rejected-undemonstrated"
    last = toks[-1] if toks else ("", b"")
    desc = _tokdesc(last)
    sig = "C01/rejects-valid/%s" % desc if desc.startswith("multiline-") else "C01/rejects-valid/%s/%s" % (res.open_cmd, desc)
    raise Violation(sig,
                    {"script": _txt(full), "error": getattr(p2, "error", repr(v2))})


def serialise(cmds):
    import io
    buf = io.StringIO()
    for c in cmds:
        c.tosieve(target=buf)
    return buf.getvalue()


def roundtrip(parser, rendered, sigbase="C04"):
    """print/parse round trip of an accepted script (everything concrete, run natively)"""
    from sievelib.parser import Parser
    from engine.side import site_of
    t1 = tuple(P.normalise(c) for c in parser.result)
    try:
        text2 = serialise(parser.result)
    except Exception as e:
        raise Violation("%s/tosieve-raises/%s@%s" % (sigbase, type(e).__name__, site_of(e)),
                        {"script": _txt(rendered), "exc": repr(e)})
    p2 = Parser()
    try:
        ok = p2.parse(text2)
    except Exception as e:
        ok = e
    names = ",".join(sorted({n for n in _names(t1)}))
    if ok is not True:
        raise Violation("%s/output-rejected/%s" % (sigbase, _culprit(t1)),
                        {"script": _txt(rendered), "output": text2,
                         "error": getattr(p2, "error", repr(ok))})
    t2 = tuple(P.normalise(c) for c in p2.result)
    if t2 != t1:
        raise Violation("%s/tree-changed/%s" % (sigbase, _first_diff(t2, t1)),
                        {"script": _txt(rendered), "output": text2})
    text3 = serialise(p2.result)
    if text3 != text2:
        raise Violation("%s/not-a-fixed-point/%s" % (sigbase, _culprit(t1)),
                        {"script": _txt(rendered), "output": text2, "second": text3})


def _names(tree):
    for node in tree:
        yield node[0]
        for x in _names(node[3]):
            yield x
        for x in _names(node[4]):
            yield x


def _culprit(tree):
    """innermost-last command name of the script: a stable, narrow label for signatures"""
    ns = [n for n in _names(tree) if n != "require"]
    return ns[-1] if ns else "require"


def judge18(out, parser, rendered, toks, lexerr):
    """C18, second sentence: a reported position is never before the first offending token."""
    if out is not False:
        return "accepted"
    if lexerr is not None:
        bad = lexerr.offset
        why = "lexical"
    else:
        res = ref_sieve.check(toks)
        if res.taints:
            raise Skip("outside the claim: " + ",".join(res.taints))
        if res.status != "reject":
            return "rejected-at-end"
        bad = toks[res.pos][2]
        why = res.reason.split("/")[0]
    line, col = parser.error_pos[0], parser.error_pos[1]
    starts = [0]
    for i, b in enumerate(rendered):
        if b == 10:
            starts.append(i + 1)
    if not (1 <= line <= len(starts)):
        raise Violation("C18/position-outside-input", {"script": _txt(rendered), "error_pos": list(parser.error_pos)})
    off = starts[line - 1] + col - 1
    if off < bad:
        raise Violation("C18/position-before-offender/%s" % why,
                        {"script": _txt(rendered), "error": parser.error, "error_pos": list(parser.error_pos),
                         "reported_offset": off, "first_offending_offset": bad})
    return "rejected/%s" % why


def _first_diff(got, want):
    """name of the first command whose normalised node differs"""
    if len(got) != len(want):
        return "top-level-count"
    for g, w in zip(got, want):
        if g != w:
            return _node_diff(g, w)
    return "?"


def _node_diff(g, w):
    if g[0] != w[0]:
        return "name"
    if g[1] != w[1]:
        return g[0] + "/tags"
    if g[2] != w[2]:
        return g[0] + "/positional"
    if len(g[3]) != len(w[3]):
        return g[0] + "/tests-count"
    for a, b in zip(g[3], w[3]):
        if a != b:
            return _node_diff(a, b)
    if len(g[4]) != len(w[4]):
        return g[0] + "/children-count"
    for a, b in zip(g[4], w[4]):
        if a != b:
            return _node_diff(a, b)
    return g[0]


def _t1_body(info, toks):
    out, parser, mat, rendered = P.lazy_parse(P.CONTEXTS[CTX], toks, VOCAB, sep=SEP)
    info["steps"] = len(mat)
    info["concrete"] = {("t%d" % i): (mat[i] if i < len(mat) else 0) for i in range(len(toks))}
    # an unread token does not influence the outcome; partition bounds must still hold on replay
    if not mat:
        info["concrete"]["t0"] = LO
    info["show"] = notrace(_txt, rendered)
    cls = notrace(judge, MODE, out, parser, rendered, len(toks), parser.lazy_all_read)
    info["cls"] = "%s/%d" % (cls, len(mat))


def _replay_syms(toks):
    return toks


def t1_n1(t0: int) -> bool:
    """
    pre: LO <= t0 < HI
    post: _
    """
    return run("t1_n1", _t1_body, dict(toks=[t0]))


def t1_n2(t0: int, t1: int) -> bool:
    """
    pre: LO <= t0 < HI
    pre: 0 <= t1 < NV
    post: _
    """
    return run("t1_n2", _t1_body, dict(toks=[t0, t1]))


def t1_n3(t0: int, t1: int, t2: int) -> bool:
    """
    pre: LO <= t0 < HI
    pre: 0 <= t1 < NV and 0 <= t2 < NV
    post: _
    """
    return run("t1_n3", _t1_body, dict(toks=[t0, t1, t2]))


def t1_n4(t0: int, t1: int, t2: int, t3: int) -> bool:
    """
    pre: LO <= t0 < HI
    pre: 0 <= t1 < NV and 0 <= t2 < NV and 0 <= t3 < NV
    post: _
    """
    return run("t1_n4", _t1_body, dict(toks=[t0, t1, t2, t3]))


def t1_n5(t0: int, t1: int, t2: int, t3: int, t4: int) -> bool:
    """
    pre: LO <= t0 < HI
    pre: 0 <= t1 < NV and 0 <= t2 < NV and 0 <= t3 < NV and 0 <= t4 < NV
    post: _
    """
    return run("t1_n5", _t1_body, dict(toks=[t0, t1, t2, t3, t4]))


def t1_n6(t0: int, t1: int, t2: int, t3: int, t4: int, t5: int) -> bool:
    """
    pre: LO <= t0 < HI
    pre: 0 <= t1 < NV and 0 <= t2 < NV and 0 <= t3 < NV and 0 <= t4 < NV and 0 <= t5 < NV
    post: _
    """
    return run("t1_n6", _t1_body, dict(toks=[t0, t1, t2, t3, t4, t5]))


# ------------------------------------------------------------------ T2: per-command arguments
T2_CMD = os.environ.get("T2_CMD", "header")
T2_PREFIX, T2_VOCAB, T2_TAIL = P.t2_space(T2_CMD)
NA = len(T2_VOCAB)
T2LO = int(os.environ.get("T2_LO", "0"))
T2HI = int(os.environ.get("T2_HI", str(NA)))
_reconf_t1 = reconfigure


def reconfigure():  # noqa: F811
    global T2_CMD, T2_PREFIX, T2_VOCAB, T2_TAIL, NA, T2LO, T2HI
    _reconf_t1()
    T2_CMD = os.environ.get("T2_CMD", "header")
    T2_PREFIX, T2_VOCAB, T2_TAIL = P.t2_space(T2_CMD)
    NA = len(T2_VOCAB)
    T2LO = int(os.environ.get("T2_LO", "0"))
    T2HI = int(os.environ.get("T2_HI", str(NA)))


def _t2_body(info, args):
    out, parser, mat, rendered = P.lazy_parse(T2_PREFIX, args, T2_VOCAB, sep=SEP, tail=T2_TAIL)
    info["steps"] = len(mat)
    info["concrete"] = {("a%d" % i): (mat[i] if i < len(mat) else 0) for i in range(len(args))}
    if not mat:
        info["concrete"]["a0"] = T2LO
    info["show"] = notrace(_txt, rendered)
    cls = notrace(judge, MODE, out, parser, rendered, len(args), parser.lazy_all_read)
    info["cls"] = "%s/%s/%d" % (T2_CMD, cls, len(mat))


def t2_k2(a0: int, a1: int) -> bool:
    """
    pre: T2LO <= a0 < T2HI and 0 <= a1 < NA
    post: _
    """
    return run("t2_k2", _t2_body, dict(args=[a0, a1]))


def t2_k3(a0: int, a1: int, a2: int) -> bool:
    """
    pre: T2LO <= a0 < T2HI and 0 <= a1 < NA and 0 <= a2 < NA
    post: _
    """
    return run("t2_k3", _t2_body, dict(args=[a0, a1, a2]))


def t2_k4(a0: int, a1: int, a2: int, a3: int) -> bool:
    """
    pre: T2LO <= a0 < T2HI and 0 <= a1 < NA and 0 <= a2 < NA and 0 <= a3 < NA
    post: _
    """
    return run("t2_k4", _t2_body, dict(args=[a0, a1, a2, a3]))


def t2_k5(a0: int, a1: int, a2: int, a3: int, a4: int) -> bool:
    """
    pre: T2LO <= a0 < T2HI and 0 <= a1 < NA and 0 <= a2 < NA and 0 <= a3 < NA and 0 <= a4 < NA
    post: _
    """
    return run("t2_k5", _t2_body, dict(args=[a0, a1, a2, a3, a4]))
