"""C07: extension use is gated by require.  The loaded-extension registry is replaced, right after
the parser's own reset, by LazyExtSet: membership of each of the 13 extension names is a symbolic
boolean decided by the solver only when sievelib asks -> 'for an arbitrary set S of required
extensions' without 2^13 up-front cases."""
import os
import re

from engine.side import run, Violation, Skip, notrace
from harness import pcommon as P
from harness.c01 import _txt
from refs import ref_sieve
try:
    from crosshair.tracers import ResumedTracing, is_tracing
except Exception:  # pragma: no cover
    ResumedTracing = None
    is_tracing = lambda: False  # noqa: E731

VOCAB_NAME = os.environ.get("T1_VOCAB", "full")
VOCAB = P.VOCABS[VOCAB_NAME]
NV = len(VOCAB)
LO = int(os.environ.get("T1_LO", "0"))
HI = int(os.environ.get("T1_HI", str(NV)))
CTX = int(os.environ.get("C07_CTX", "0"))
EXTS = P.ALL_EXT

# context prefixes without require (the set S stands for it)
CONTEXTS = [b"", b"if true {\n", b"if anyof ( true ,\n", b"if not\n", b"if true { keep; }\nelsif\n",
            b'if header :is "a" "b" { keep; }\n', b"if allof ( not\n"]

# carrier scripts: every extension-bound construct in several positions and spellings
CONSTRUCTS = [
    (b'fileinto "a";', "command"), (b'reject "a";', "command"), (b'vacation "a";', "command"),
    (b'setflag "a";', "command"), (b'addflag "a";', "command"), (b'removeflag "a";', "command"),
    (b'set "a" "b";', "command"),
    (b'envelope "a" "b"', "test"), (b'body :text "a"', "test"), (b'hasflag "a"', "test"),
    (b'date "a" "b" "c"', "test"), (b'currentdate "a" "b"', "test"),
    (b'redirect :copy "a";', "command"), (b'fileinto :copy "a";', "command"),
    (b'fileinto :create "a";', "command"), (b'fileinto :flags "f" "a";', "command"),
    (b'keep :flags "f";', "command"), (b'vacation :seconds 3 "a";', "command"),
    (b'header :count "gt" "a" "1"', "test"), (b'header :value "gt" "a" "1"', "test"),
    (b'header :regex "a" "b"', "test"), (b'address :regex "a" "b"', "test"),
    (b'fileinto :copy :create :flags "f" "a";', "command"),
    (b'envelope :count "gt" "a" "1"', "test"),
]
FRAMES_CMD = [b"%s", b"if true { %s }", b"if true { if false { %s } }", b"if true { keep; } else { %s }",
              b"keep; %s", b"if true { stop; } %s"]
FRAMES_TEST = [b"if %s { keep; }", b"if not %s { keep; }", b"if anyof (true, %s) { keep; }",
               b"if allof (%s, false) { keep; }", b"if true { keep; } elsif %s { keep; }",
               b"if anyof (not %s) { keep; }"]


def _upper_first_word(b):
    parts = b.split(b" ", 1)
    return parts[0].upper() + (b" " + parts[1] if len(parts) > 1 else b"")


def _upper_tags(b):
    return re.sub(rb":[a-z]+", lambda m: m.group(0).upper(), b)


def build_carriers():
    out = []
    for text, role in CONSTRUCTS:
        frames = FRAMES_CMD if role == "command" else FRAMES_TEST
        for f in frames:
            out.append(f % text)
        out.append(frames[1] % _upper_first_word(text))
        if b":" in text:
            out.append(frames[0] % _upper_tags(text))
    # two constructs in one script: the first missing extension in script order must be named
    out.append(b'fileinto :copy "a"; reject "b";')
    out.append(b'if envelope "a" "b" { vacation :seconds 1 "x"; }')
    out.append(b'if body :text "a" { fileinto :create "x"; } else { setflag "f"; }')
    # real require commands in the script (string form, list form, several commands, duplicates, after other
    # commands): what they name is loaded for the rest of the script, whatever S holds
    out.append(b'require "fileinto"; require "envelope"; if envelope "a" "b" { fileinto "x"; }')
    out.append(b'require ["copy"]; require ["fileinto", "copy"]; require "reject"; fileinto :copy "a"; reject "b";')
    out.append(b'require "vacation"; require "vacation-seconds"; vacation :seconds 1 "x";')
    out.append(b'require ["relational", "regex"]; require "body"; if anyof (header :count "gt" "a" "1", body :regex "x") { keep; }')
    out.append(b'require "imap4flags"; keep; require "mailbox"; fileinto :create "x";')
    out.append(b'require "fileinto"; require "fileinto"; fileinto "x";')
    # a require that does NOT name what is used: one string with a comma, a related extension only
    out.append(b'require "fileinto,copy"; fileinto :copy "a";')
    out.append(b'require ["fileinto,", ",reject"]; fileinto "a"; reject "b";')
    out.append(b'require "relational,regex"; if header :regex "a" "b" { keep; }')
    out.append(b'require "vacation-seconds"; vacation :seconds 60 "away";')
    out.append(b'require "copy"; fileinto :copy "a";')
    out.append(b'require ["mailbox", "imap4flags"]; fileinto :create :flags "f" "a";')
    out.append(b'require "relational"; if envelope :count "gt" "a" "1" { keep; }')
    out.append(b'require "FILEINTO"; fileinto "a";')
    out.append(b'require " fileinto"; fileinto "a";')
    out.append(b'require "date"; if currentdate "a" "b" { keep; } require "variables"; set "a" "b"; if date "a" "b" "c" { stop; }')
    return out


CARRIERS = build_carriers()
NCAR = len(CARRIERS)
CLO = int(os.environ.get("C07_LO", "0"))
CHI = int(os.environ.get("C07_HI", str(NCAR)))


def reconfigure():
    global VOCAB_NAME, VOCAB, NV, LO, HI, CTX, CLO, CHI
    VOCAB_NAME = os.environ.get("T1_VOCAB", "full")
    VOCAB = P.VOCABS[VOCAB_NAME]
    NV = len(VOCAB)
    LO = int(os.environ.get("T1_LO", "0"))
    HI = int(os.environ.get("T1_HI", str(NV)))
    CTX = int(os.environ.get("C07_CTX", "0"))
    CLO = int(os.environ.get("C07_LO", "0"))
    CHI = int(os.environ.get("C07_HI", str(NCAR)))


class ExtSet(P.LazyExtSet):
    def __contains__(self, name):
        if list.__contains__(self, name):
            return True
        if name in self.bools:
            for n, v in self.asked:
                if n == name:
                    return v
            if is_tracing() or ResumedTracing is None or not self.resume:
                v = bool(self.bools[name])
            else:
                with ResumedTracing():
                    v = bool(self.bools[name])
            self.asked.append((name, v))
            return v
        return False


NOT_LOADED = re.compile(r"extension '([^']*)' not loaded$")


def judge7(out, parser, rendered, asked):
    if not (out is True or out is False):
        raise Skip("no verdict (C02's matter)")
    toks, lexerr = P.ref_tokens(rendered)
    if lexerr is not None:
        if out is True:
            raise Skip("lexical (C01's matter)")
        return "rejected-lex"
    answers = dict(asked)
    # ---- accepted => every extension used is in S (for ALL accepted inputs, irregular ones too)
    res_all = ref_sieve.check(toks, loaded=lambda e: True)      # collects every use
    if out is True:
        for ext, pos in res_all.ext_uses:
            if ext in res_all_required(toks):
                continue
            if answers.get(ext) is not True:
                how = "never-asked" if ext not in answers else "asked-false"
                raise Violation("C07/ungated/%s/%s" % (ext, how),
                                {"script": _txt(rendered), "extension": ext, "loaded": answers})
        return "accepted/%d" % len(res_all.ext_uses)
    # ---- rejected
    err = parser.error
    m = NOT_LOADED.search(err)
    res = ref_sieve.check(toks, loaded=lambda e: answers.get(e, True))
    if res.taints:
        raise Skip("outside the claim: " + ",".join(res.taints))
    if m:
        if res.status == "reject" and res.reason == "EXTENSION_NOT_LOADED" and res.ext == m.group(1):
            return "rejected-ext/" + res.ext
        if res.status == "reject" and res.reason != "EXTENSION_NOT_LOADED":
            return "rejected-other-first"
        raise Violation("C07/wrong-extension-error/%s" % m.group(1),
                        {"script": _txt(rendered), "error": err, "loaded": answers,
                         "ref": [res.status, res.reason, res.ext]})
    if res.status == "reject" and res.reason == "EXTENSION_NOT_LOADED":
        # the reference says: the first thing wrong is a missing extension
        raise Violation("C07/missing-extension-not-named/%s" % res.ext,
                        {"script": _txt(rendered), "error": err, "loaded": answers})
    return "rejected"


def res_all_required(toks):
    """extensions named by require commands inside the script itself"""
    r = ref_sieve.check(toks, loaded=lambda e: True)
    names = set()
    for node in r.tree:
        if node.name == "require" and node.pos:
            v = node.pos[0]
            for item in (v if isinstance(v, list) else [v]):
                names.add(item.strip('"'))
    return names


def _install(es):
    def hook():
        return es
    return hook


def _run(info, prefix, toks, vocab, bools, concrete_prefix_args):
    es = ExtSet().setup(dict(zip(EXTS, bools)))
    es.resume = True
    out, parser, mat, rendered = P.lazy_parse(prefix, toks, vocab, preload=es)
    info["steps"] = len(mat) + len(es.asked)
    conc = dict(concrete_prefix_args)
    for i in range(len(toks)):
        conc["t%d" % i] = mat[i] if i < len(mat) else 0
    if toks and not mat:
        conc["t0"] = LO
    ans = dict(es.asked)
    for i, e in enumerate(EXTS):
        conc["e%d" % i] = bool(ans.get(e, False))
    info["concrete"] = conc
    info["show"] = notrace(lambda: {"script": _txt(rendered), "asked": list(es.asked)})
    cls = notrace(judge7, out, parser, rendered, list(es.asked))
    info["cls"] = "%s/%s" % (cls, "".join("1" if v else "0" for _, v in es.asked))


def _ext_t1_body(info, toks, bools):
    _run(info, CONTEXTS[CTX], toks, VOCAB, bools, {})


def ext_t1_n2(t0: int, t1: int, e0: bool, e1: bool, e2: bool, e3: bool, e4: bool, e5: bool, e6: bool, e7: bool, e8: bool, e9: bool, e10: bool, e11: bool, e12: bool) -> bool:
    """
    pre: LO <= t0 < HI and 0 <= t1 < NV
    post: _
    """
    return run("ext_t1_n2", _ext_t1_body, dict(toks=[t0, t1], bools=[e0, e1, e2, e3, e4, e5, e6, e7, e8, e9, e10, e11, e12]))


def ext_t1_n3(t0: int, t1: int, t2: int, e0: bool, e1: bool, e2: bool, e3: bool, e4: bool, e5: bool, e6: bool, e7: bool, e8: bool, e9: bool, e10: bool, e11: bool, e12: bool) -> bool:
    """
    pre: LO <= t0 < HI and 0 <= t1 < NV and 0 <= t2 < NV
    post: _
    """
    return run("ext_t1_n3", _ext_t1_body, dict(toks=[t0, t1, t2], bools=[e0, e1, e2, e3, e4, e5, e6, e7, e8, e9, e10, e11, e12]))


def ext_t1_n4(t0: int, t1: int, t2: int, t3: int, e0: bool, e1: bool, e2: bool, e3: bool, e4: bool, e5: bool, e6: bool, e7: bool, e8: bool, e9: bool, e10: bool, e11: bool, e12: bool) -> bool:
    """
    pre: LO <= t0 < HI and 0 <= t1 < NV and 0 <= t2 < NV and 0 <= t3 < NV
    post: _
    """
    return run("ext_t1_n4", _ext_t1_body, dict(toks=[t0, t1, t2, t3], bools=[e0, e1, e2, e3, e4, e5, e6, e7, e8, e9, e10, e11, e12]))


def _carrier_body(info, c, bools):
    ci = CLO + P.decode(c - CLO, CHI - CLO)
    _run(info, CARRIERS[ci] + b"\n", [], VOCAB, bools, {"c": ci})


def ext_carrier(c: int, e0: bool, e1: bool, e2: bool, e3: bool, e4: bool, e5: bool, e6: bool, e7: bool, e8: bool, e9: bool, e10: bool, e11: bool, e12: bool) -> bool:
    """
    pre: CLO <= c < CHI
    post: _
    """
    return run("ext_carrier", _carrier_body, dict(c=c, bools=[e0, e1, e2, e3, e4, e5, e6, e7, e8, e9, e10, e11, e12]))
