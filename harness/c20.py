"""C20: commands registered with add_commands are parsed and printed according to their definition.
A definition of the documented shape is drawn symbolically, the class is built with type() and
registered through the real add_commands; the reference grammar R1 is instantiated from the same
definition; uses are lazily chosen argument sequences (as in C01-T2)."""
import os

from engine.side import run, Violation, Skip, notrace
from harness import pcommon as P
from harness.c01 import judge, _txt
from refs import ref_sieve
from refs.ref_sieve import STRING, STRLIST, NUMBER
from sievelib import commands as SC

ROLE = os.environ.get("C20_ROLE", "action")       # action | test
EXT = os.environ.get("C20_EXT", "")               # "" | "x-ext"
REQUIRED = os.environ.get("C20_REQUIRE", "1") == "1"
TWO_SLOTS = os.environ.get("C20_TWO_SLOTS", "0") == "1"
MODE = os.environ.get("T1_MODE", "c20")
NSLOT = 6
NREQ = 3
S0LO = int(os.environ.get("C20_S0LO", "0"))
S0HI = int(os.environ.get("C20_S0HI", str(NSLOT + 1)))
R0LO = int(os.environ.get("C20_R0LO", "0"))
R0HI = int(os.environ.get("C20_R0HI", str(NREQ)))


def reconfigure():
    global ROLE, EXT, REQUIRED, TWO_SLOTS, MODE, S0LO, S0HI, R0LO, R0HI
    S0LO = int(os.environ.get("C20_S0LO", "0"))
    S0HI = int(os.environ.get("C20_S0HI", str(NSLOT + 1)))
    R0LO = int(os.environ.get("C20_R0LO", "0"))
    R0HI = int(os.environ.get("C20_R0HI", str(NREQ)))
    ROLE = os.environ.get("C20_ROLE", "action")
    EXT = os.environ.get("C20_EXT", "")
    REQUIRED = os.environ.get("C20_REQUIRE", "1") == "1"
    TWO_SLOTS = os.environ.get("C20_TWO_SLOTS", "0") == "1"
    MODE = os.environ.get("T1_MODE", "c20")


VOCAB = [b"TERM", b":ta", b":tb", b":tc", b":TA", b":zz", b'"a"', b'"v1"', b'["a", "b"]', b"1", b"text:\nm\n."]
NA = len(VOCAB)


def slot_def(kind, name, t1, t2):
    """sievelib args_definition entry and R1 tag entries for one optional tag slot"""
    d = {"name": name, "type": ["tag"], "write_tag": True, "required": False}
    if kind == 0:
        d["values"] = [t1]
        ref = {t1: (name, None, None, None)}
    elif kind == 1:
        d["values"] = [t1]
        d["extra_arg"] = {"type": "string", "required": False}
        ref = {t1: (name, STRING, None, None)}
    elif kind == 2:
        d["values"] = [t1]
        d["extra_arg"] = {"type": "number", "required": False}
        ref = {t1: (name, NUMBER, None, None)}
    elif kind == 3:
        d["values"] = [t1]
        d["extra_arg"] = {"type": ["string", "stringlist"]}
        ref = {t1: (name, STRLIST, None, None)}
    elif kind == 4:
        d["values"] = [t1]
        d["extra_arg"] = {"type": "string", "values": ['"v1"', '"v2"']}
        ref = {t1: (name, STRING, ['"v1"', '"v2"'], None)}
    else:
        d["values"] = [t1, t2]
        d["extra_arg"] = {"type": "string", "valid_for": [t1]}
        ref = {t1: (name, STRING, None, None), t2: (name, None, None, None)}
    return d, ref


REQ_TYPES = [(["string"], STRING), (["number"], NUMBER), (["string", "stringlist"], STRLIST)]


def build(s0, s1, r0, r1):
    """(args_definition, R1 spec pieces) for concrete component indices; s1/r1 == -1: absent"""
    adef, tags = [], {}
    if s0 >= 0:
        d, ref = slot_def(s0, "slot0", ":ta", ":tb")
        adef.append(d)
        tags.update(ref)
    if s1 >= 0:
        d, ref = slot_def(s1, "slot1", ":tc", ":td")
        adef.append(d)
        tags.update(ref)
    pos = []
    names = []
    for i, r in enumerate([r0, r1]):
        if r < 0:
            continue
        typ, rt = REQ_TYPES[r]
        adef.append({"name": "req%d" % i, "type": list(typ), "required": True})
        pos.append((rt, False))
        names.append("req%d" % i)
    return adef, tags, pos, names


def _check_names(parser, adef, names):
    """arguments are recorded under the defined names"""
    for top in parser.result:
        for node in top.walk():
            if node.name != "xcmd":
                continue
            for k in node.arguments:
                if k not in [a["name"] for a in adef]:
                    raise Violation("C20/undefined-argument-name", {"name": k})
            for k in node.extra_arguments:
                if k not in [a["name"] for a in adef if "extra_arg" in a]:
                    raise Violation("C20/undefined-extra-argument-name", {"name": k})


def _native(out, parser, rendered, all_read, adef, tags, pos, names):
    role = "test" if ROLE == "test" else "command"
    ref_sieve.CMDS["xcmd"] = dict(name="xcmd", role=role, ext=EXT or None, tags=tags, pos=pos, test=0,
                                  block=False, follow=None, reqtags=[])
    if EXT:
        ref_sieve.KNOWN_EXTENSIONS.add(EXT)
    try:
        cls = judge("c20", out, parser, rendered, 0, all_read)
        if out is True:
            _check_names(parser, adef, names)
            if EXT and REQUIRED:
                # the same Parser object, next script: the same use without its require must be refused
                bare = rendered.split(b"\n", 1)[1]
                try:
                    again = parser.parse(bare)
                except Exception as e:
                    again = e
                if again is not False or "extension '%s' not loaded" % EXT not in parser.error:
                    raise Violation("C20/extension-not-required-but-accepted-on-reused-parser",
                                    {"first": _txt(rendered), "second": _txt(bare), "verdict": repr(again),
                                     "error": getattr(parser, "error", None)})
        return cls
    finally:
        del ref_sieve.CMDS["xcmd"]
        ref_sieve.KNOWN_EXTENSIONS.discard(EXT)


def _unregistered_still_unknown():
    from sievelib.parser import Parser
    p = Parser()
    try:
        v = p.parse(b'ycmd "a";')
    except Exception as e:
        v = e
    if v is not False or "unknown command" not in p.error:
        raise Violation("C20/unregistered-name-known", {"verdict": repr(v), "error": getattr(p, "error", None)})


def _body(info, s0, s1, r0, r1, args):
    c0 = S0LO + P.decode(s0 - S0LO, S0HI - S0LO) - 1      # -1 = no tag slot
    c1 = (P.decode(s1, NSLOT + 1) - 1) if TWO_SLOTS else -1
    q0 = R0LO + P.decode(r0 - R0LO, R0HI - R0LO)
    q1 = P.decode(r1, NREQ + 1) - 1                  # -1 = one required argument only
    adef, tags, pos, names = build(c0, c1, q0, q1)
    base = SC.TestCommand if ROLE == "test" else SC.ActionCommand
    attrs = {"args_definition": adef}
    if EXT:
        attrs["extension"] = EXT
    cls = type("XcmdCommand", (base,), attrs)
    prefix = b""
    if EXT and REQUIRED:
        prefix += b'require "x-ext";\n'
    if ROLE == "test":
        prefix += b"if "
        tail = b"{ keep; }\n"
    else:
        tail = b";\n"
    prefix += b"xcmd\n"
    vocab = [tail.strip()] + VOCAB[1:]
    SC.add_commands(cls)
    try:
        out, parser, mat, rendered = P.lazy_parse(prefix, args, vocab, tail=tail)
        info["steps"] = len(mat) + 4
        conc = {"s0": c0 + 1, "s1": (c1 + 1) if TWO_SLOTS else 0, "r0": q0, "r1": q1 + 1}
        for i in range(len(args)):
            conc["a%d" % i] = mat[i] if i < len(mat) else 0
        info["concrete"] = conc
        info["show"] = notrace(lambda: {"definition": repr(adef), "script": _txt(rendered)})
        verdict = notrace(_native, out, parser, rendered, parser.lazy_all_read, adef, tags, pos, names)
        info["cls"] = "%d.%d.%d.%d/%s/%d" % (c0, c1, q0, q1, verdict, len(mat))
    finally:
        vars(SC).pop("XcmdCommand", None)
    notrace(_unregistered_still_unknown)


def c20_k3(s0: int, s1: int, r0: int, r1: int, a0: int, a1: int, a2: int) -> bool:
    """
    pre: S0LO <= s0 < S0HI and 0 <= s1 <= NSLOT and R0LO <= r0 < R0HI and 0 <= r1 <= NREQ
    pre: 0 <= a0 < NA and 0 <= a1 < NA and 0 <= a2 < NA
    post: _
    """
    return run("c20_k3", _body, dict(s0=s0, s1=s1, r0=r0, r1=r1, args=[a0, a1, a2]))


def c20_k4(s0: int, s1: int, r0: int, r1: int, a0: int, a1: int, a2: int, a3: int) -> bool:
    """
    pre: S0LO <= s0 < S0HI and 0 <= s1 <= NSLOT and R0LO <= r0 < R0HI and 0 <= r1 <= NREQ
    pre: 0 <= a0 < NA and 0 <= a1 < NA and 0 <= a2 < NA and 0 <= a3 < NA
    post: _
    """
    return run("c20_k4", _body, dict(s0=s0, s1=s1, r0=r0, r1=r1, args=[a0, a1, a2, a3]))


def c20_k5(s0: int, s1: int, r0: int, r1: int, a0: int, a1: int, a2: int, a3: int, a4: int) -> bool:
    """
    pre: S0LO <= s0 < S0HI and 0 <= s1 <= NSLOT and R0LO <= r0 < R0HI and 0 <= r1 <= NREQ
    pre: 0 <= a0 < NA and 0 <= a1 < NA and 0 <= a2 < NA and 0 <= a3 < NA and 0 <= a4 < NA
    post: _
    """
    return run("c20_k5", _body, dict(s0=s0, s1=s1, r0=r0, r1=r1, args=[a0, a1, a2, a3, a4]))
