"""C14: emulated rename never loses or overwrites a script.
Initial server state, old/new names, body variant and the server's behaviour at each of the up to
five steps (OK / NO / BYE / silence / closed connection) are symbolic choices, forced lazily when
the reference server is asked for its next reply."""
import os

from engine.side import run, Violation, Skip, notrace
from harness import pcommon as P
from harness.mcommon import FakeSock, make_client, buffer_of, Feeder, Hang
from refs import ref_ms as R
from sievelib import managesieve as MS
try:
    from crosshair.tracers import NoTracing, ResumedTracing, is_tracing
except Exception:  # pragma: no cover
    NoTracing = ResumedTracing = None
    is_tracing = lambda: False  # noqa: E731

POOL = [b"alpha", b"radioactive", b"gamma"]
BODIES = [b"keep;\r\n", b"keep;\n", b"keep;", b"", b"OK\r\n{5}\r\nNO \"x\"\r\n", b"# \xc3\xa9\r\nstop;\r\n", b'if true {\r\n  keep;\r\n}\r\n',
          'reject "a\x0bb\x0cc\x1cd\x85e\u2028f\u2029g";\r\n'.encode("utf-8")]
NB = len(BODIES)
FAULTS = ["OK", "NO", "BYE", "SILENT", "EOF"]
NF = int(os.environ.get("C14_NF", "5"))
OLD = int(os.environ.get("C14_OLD", "0"))
NEW = int(os.environ.get("C14_NEW", "1"))
TWICE = os.environ.get("C14_TWICE", "0") == "1"
BSEL = [int(x) for x in os.environ.get("C14_BODIES", "0,1,2,3,4,5,6,7").split(",")]


def reconfigure():
    global NF, OLD, NEW, TWICE, BSEL
    BSEL = [int(x) for x in os.environ.get("C14_BODIES", "0,1,2,3,4,5,6,7").split(",")]
    NF = int(os.environ.get("C14_NF", "5"))
    OLD = int(os.environ.get("C14_OLD", "0"))
    NEW = int(os.environ.get("C14_NEW", "1"))
    TWICE = os.environ.get("C14_TWICE", "0") == "1"


class Lazy:
    """symbolic ints decoded only when asked for (tracing resumed for the comparison tree)"""

    def __init__(self, syms):
        self.syms = syms
        self.k = 0
        self.taken = []

    frozen = False
    frozen_kinds = ()

    def next(self, n, kind=None):
        if self.frozen or (kind is not None and kind in self.frozen_kinds):
            return 0
        if self.k >= len(self.syms):
            self.taken.append(0)
            return 0
        s = self.syms[self.k]
        self.k += 1
        if is_tracing() or ResumedTracing is None or not self.resume:
            v = P.decode(s, n)
        else:
            with ResumedTracing():
                v = P.decode(s, n)
        self.taken.append(v)
        return v

    resume = False


def _norm(b):
    t = b.replace(b"\r\n", b"\n").replace(b"\r", b"\n").split(b"\n")
    while t and t[-1] == b"":
        t.pop()
    return t


def _scenario(ex0, ex1, ex2, act, bi, lazy):
    exists = [ex0, ex1, ex2]
    scripts = {}
    for i, e in enumerate(exists):
        if e:
            scripts[POOL[i]] = BODIES[(bi + i) % NB] if i else BODIES[bi]
    names = [n for n in scripts]
    active = names[act - 1] if 0 < act <= len(names) else None
    srv = R.Server(scripts=scripts, active=active, version=False)
    sock = FakeSock([], eof="timeout")
    sock.server = Feeder(srv)
    log = []

    def fault(verb, step):
        f = FAULTS[lazy.next(NF)]
        log.append("%s->%s" % (verb.decode(), f))
        if f == "EOF":
            sock.eof = "eof"
            return "SILENT"
        return None if f == "OK" else f
    srv.fault = fault
    c = make_client(sock, version=False)
    return srv, sock, c, log, dict(scripts), active


def _check(before, active_before, srv, old, new, result, log, second=False):
    after = srv.scripts
    what = {"before": {k.decode(): v.decode("latin-1") for k, v in before.items()}, "active_before": repr(active_before),
            "after": {k.decode(): v.decode("latin-1") for k, v in after.items()}, "active_after": repr(srv.active),
            "old": old.decode(), "new": new.decode(), "result": repr(result), "server_saw": list(log)}
    if result[0] not in ("ret", "Error") or (result[0] == "ret" and result[1] not in (True, False)):
        raise Violation("C14/outcome/%s" % (result[1] if result[0] == "raises" else result[0]), what)
    for name, body in before.items():
        if name == old:
            ok = (name in after and _norm(after[name]) == _norm(body)) or \
                 (new in after and new not in before and _norm(after[new]) == _norm(body))
            if not ok:
                raise Violation("C14/lost/renamed-script", what)
        else:
            if name not in after:
                raise Violation("C14/lost/%s" % ("target" if name == new else "third"), what)
            if after[name] != body:
                raise Violation("C14/overwritten/%s%s" % ("target" if name == new else "third",
                                                          "-active" if name == active_before else ""), what)
    for name in after:
        if name not in before and name != new:
            raise Violation("C14/invented-script", what)
    if active_before is not None and active_before != old and srv.active != active_before:
        raise Violation("C14/active-pointer-moved", what)
    if result == ("ret", True):
        if old in after and old != new:
            raise Violation("C14/true-but-old-remains", what)
        if old not in before:
            raise Violation("C14/true-but-old-never-existed", what)
        if new not in after or _norm(after[new]) != _norm(before[old]):
            raise Violation("C14/true-but-new-wrong", what)
        if (srv.active == new) != (active_before == old):
            raise Violation("C14/true-but-active-wrong", what)
    if srv.violations:
        raise Violation("C14/protocol-violation", dict(what, violations=list(srv.violations)))
    # C09's clause for this multi-step operation: when the server answered OK to every step and the rename is
    # possible (old exists, new does not), the call reports success
    if log and all(x.endswith("->OK") for x in log) and old in before and new not in before and old != new:
        if result != ("ret", True):
            raise Violation("C14/every-step-OK-but-not-reported-as-success", what)


def _call(c, old, new):
    try:
        return ("ret", c.renamescript(old.decode(), new.decode()))
    except MS.Error as e:
        return ("Error", str(e))
    except Hang:
        return ("raises", "Hang")
    except Exception as e:
        return ("raises", type(e).__name__ + ": " + str(e)[:80])


def _native(ex0, ex1, ex2, act, bi, lazy):
    srv, sock, c, log, before, active = _scenario(ex0, ex1, ex2, act, bi, lazy)
    old, new = POOL[OLD], POOL[NEW]
    r = _call(c, old, new)
    _check(before, active, srv, old, new, r, log)
    if TWICE and r[0] != "Error":
        # a second rename in the same session (state and buffer carried over): back again
        before2, active2 = dict(srv.scripts), srv.active
        log2 = []
        del log[:]
        r2 = _call(c, new, old)
        _check(before2, active2, srv, new, old, r2, log, second=True)
    return {"exists": [ex0, ex1, ex2], "active": repr(active), "old": old.decode(), "new": new.decode(),
            "body": BODIES[bi].decode("latin-1"), "server_saw": list(log), "result": repr(r)}


def _body(info, ex0, ex1, ex2, act, bi, faults):
    e0, e1, e2 = bool(ex0), bool(ex1), bool(ex2)
    ca = P.decode(act, 4)
    cb = BSEL[P.decode(bi, len(BSEL))]
    lazy = Lazy(faults)

    def record():
        taken = list(lazy.taken)
        conc = dict(ex0=e0, ex1=e1, ex2=e2, act=ca, bi=BSEL.index(cb))
        for i in range(len(faults)):
            conc["f%d" % i] = taken[i] if i < len(taken) else 0
        info["concrete"] = conc
        return taken

    try:
        if is_tracing():
            lazy.resume = True
            with NoTracing():
                show = _native(e0, e1, e2, ca, cb, lazy)
        else:
            show = _native(e0, e1, e2, ca, cb, lazy)
    finally:
        taken = record()
    info["steps"] = 5 + len(taken)
    info["show"] = show
    info["cls"] = "%d%d%d/%d/%d/%s" % (e0, e1, e2, ca, cb, "".join(str(t) for t in taken))


def _wrap(info, ex0, ex1, ex2, act, bi, faults):
    try:
        _body(info, ex0, ex1, ex2, act, bi, faults)
    except Violation:
        raise


def rename(ex0: bool, ex1: bool, ex2: bool, act: int, bi: int, f0: int, f1: int, f2: int, f3: int, f4: int, f5: int,
           f6: int, f7: int, f8: int, f9: int) -> bool:
    """
    pre: 0 <= act < 4 and 0 <= bi < len(BSEL)
    pre: all(0 <= f < NF for f in (f0, f1, f2, f3, f4, f5, f6, f7, f8, f9))
    post: _
    """
    return run("rename", _wrap, dict(ex0=ex0, ex1=ex1, ex2=ex2, act=act, bi=bi, faults=[f0, f1, f2, f3, f4, f5, f6, f7, f8, f9]))
