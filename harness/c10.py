"""C10 (nothing before authentication, no credentials before TLS) and C16 (SASL mechanism and
payload).  connect() runs against a scripted handshake server; socket.create_connection and
ssl.create_default_context are replaced *inside sievelib.managesieve's namespace* by stubs that
hand out tagged fake sockets (plain / TLS).  Call histories, server behaviour at each protocol
step, capability sets before/after TLS and the TLS handshake outcome are symbolic choices forced
lazily."""
import ast
import base64
import os
import socket as _real_socket
import ssl as _real_ssl

from engine.side import run, Violation, Skip, notrace
from harness import pcommon as P
from harness.c14 import Lazy
from harness.mcommon import FakeSock, Hang
from refs import ref_ms as R
from sievelib import managesieve as MS
try:
    from crosshair.tracers import NoTracing, is_tracing
except Exception:  # pragma: no cover
    NoTracing = None
    is_tracing = lambda: False  # noqa: E731

SASL_LISTS = [b"PLAIN", b"LOGIN PLAIN", b"OAUTHBEARER X-UNKNOWN", b"SCRAM-SHA-1 GSSAPI", b"", None,
              b"PLAIN LOGIN OAUTHBEARER", b"DIGEST-MD5 PLAIN", b"XOAUTHBEARER PLAIN-CLIENTTOKEN X-LOGIN"]
BEHAV = ["OK", "NO", "BYE", "SILENT", "MALFORMED"]
OK_FORMS = [b'OK "ready"\r\n', b'OK (WARNINGS) {14}\r\nOK "confusing"\r\n', b"OK {9}\r\nOK NO BYE\r\n"]
AUTHMECHS = [None, "PLAIN", "LOGIN", "OAUTHBEARER", "X-UNKNOWN", "plain", "DIGEST-MD5"]
SCRIPT_VERBS = [b"HAVESPACE", b"LISTSCRIPTS", b"GETSCRIPT", b"PUTSCRIPT", b"CHECKSCRIPT", b"DELETESCRIPT", b"RENAMESCRIPT",
                b"SETACTIVE"]
CALLS = ["connect", "connect-tls", "havespace", "listscripts", "getscript", "putscript", "checkscript", "deletescript",
         "renamescript", "setactive", "capability", "logout"]
NCALLS = len(CALLS)
C0LO = int(os.environ.get("C10_LO", "0"))
C0HI = int(os.environ.get("C10_HI", str(NCALLS)))
NSASL = int(os.environ.get("C10_NSASL", "6"))
NMECH = int(os.environ.get("C10_NMECH", "7"))
NCALL = int(os.environ.get("C10_NCALL", "3"))
SASL_ORDER = [int(x) for x in os.environ.get("C10_SASL", "0,1,2,3,4,5,6,7,8").split(",")]
MECH_ORDER = [int(x) for x in os.environ.get("C10_MECHS", "0,1,2,3,4,5,6").split(",")]
CRED_FIXED = os.environ.get("C10_CRED")
SHAPE = os.environ.get("C10_SHAPE", "connect*,deletescript").split(",")
FREEZE = tuple(x for x in os.environ.get("C10_FREEZE", "").split(",") if x)
X0LO = int(os.environ.get("C10_X0LO", "-1000000"))
X0HI = int(os.environ.get("C10_X0HI", "1000000"))
X1LO = int(os.environ.get("C10_X1LO", "-1000000"))
X1HI = int(os.environ.get("C10_X1HI", "1000000"))


def reconfigure():
    global C0LO, C0HI, NSASL, NMECH, NCALL, SASL_ORDER, MECH_ORDER, CRED_FIXED, SHAPE, FREEZE, X0LO, X0HI, X1LO, X1HI
    X0LO = int(os.environ.get("C10_X0LO", "-1000000"))
    X0HI = int(os.environ.get("C10_X0HI", "1000000"))
    X1LO = int(os.environ.get("C10_X1LO", "-1000000"))
    X1HI = int(os.environ.get("C10_X1HI", "1000000"))
    SHAPE = os.environ.get("C10_SHAPE", "connect*,deletescript").split(",")
    FREEZE = tuple(x for x in os.environ.get("C10_FREEZE", "").split(",") if x)
    NMECH = int(os.environ.get("C10_NMECH", "7"))
    NCALL = int(os.environ.get("C10_NCALL", "3"))
    SASL_ORDER = [int(x) for x in os.environ.get("C10_SASL", "0,1,2,3,4,5,6,7,8").split(",")]
    MECH_ORDER = [int(x) for x in os.environ.get("C10_MECHS", "0,1,2,3,4,5,6").split(",")]
    CRED_FIXED = os.environ.get("C10_CRED")
    C0LO = int(os.environ.get("C10_LO", "0"))
    C0HI = int(os.environ.get("C10_HI", str(NCALLS)))
    NSASL = int(os.environ.get("C10_NSASL", "6"))


class World:
    """the network as seen by one Client: hands out sockets, scripts the server side"""

    def __init__(self, lazy):
        self.lazy = lazy
        self.socks = []
        self.events = []          # ordered: ('open'|'tls'|'write'|'authok', sock id, tls?, bytes)
        self.last_mech = None

    # ---- stubs installed into sievelib.managesieve
    def create_connection(self, addr, *a, **k):
        if self.lazy.next(2, "refuse") == 1:
            raise _real_socket.error("connection refused")
        s = WSock(self, tls=False)
        s.greet()
        return s

    def create_default_context(self, *a, **k):
        world = self

        class Ctx:
            def load_cert_chain(self, *a, **k):
                pass

            def wrap_socket(self, sock, server_hostname=None, **k):
                if world.lazy.next(2, "wrap") == 1:
                    raise _real_ssl.SSLError("handshake failure")
                return sock.upgrade()
        return Ctx()


class WSock(FakeSock):
    def __init__(self, world, tls, conn=None):
        FakeSock.__init__(self, [], eof="timeout")
        self.world = world
        self.tls = tls
        self.conn = conn if conn is not None else {"id": len(world.socks), "authed": False, "starttls_ok": False, "sasl": None,
                                                   "tls": False, "pending": b"", "mech": None}
        world.socks.append(self)
        world.events.append(("tls" if tls else "open", self.conn["id"], tls, b""))

    def caps(self):
        w = self.world
        sasl = SASL_LISTS[SASL_ORDER[w.lazy.next(min(NSASL, len(SASL_ORDER)), "sasl")]]
        self.conn["sasl"] = sasl
        out = b'"IMPLEMENTATION" "ref"\r\n"SIEVE" "fileinto"\r\n'
        if sasl is not None:
            out += b'"SASL" ' + R.quote(sasl) + b"\r\n"
        if not self.tls:
            self.conn["offers_tls"] = not bool(w.lazy.next(2, "offer"))
            if self.conn["offers_tls"]:
                out += b'"STARTTLS"\r\n'
        return out

    def greet(self):
        b = BEHAV[self.world.lazy.next(5, "greet")]
        if b == "OK":
            self.inbox.append(self.caps() + OK_FORMS[self.world.lazy.next(len(OK_FORMS), "okform")])
        elif b == "NO":
            self.inbox.append(b'NO "go away"\r\n')
        elif b == "BYE":
            self.inbox.append(b'BYE "overloaded"\r\n')
        elif b == "MALFORMED":
            self.inbox.append(b"\x00\xff garbage\r\n")

    def upgrade(self):
        t = WSock(self.world, tls=True, conn=self.conn)
        self.conn["tls"] = True
        self.conn["authed"] = False
        self.conn["sasl"] = None        # what was announced before the handshake no longer counts (RFC 5804 2.2)
        t.greet_after_tls()
        return t

    def greet_after_tls(self):
        b = BEHAV[self.world.lazy.next(5, "greet2")]
        if b == "OK":
            self.inbox.append(self.caps() + OK_FORMS[self.world.lazy.next(len(OK_FORMS), "okform")])
        elif b == "NO":
            self.inbox.append(b'NO "x"\r\n')
        elif b == "BYE":
            self.inbox.append(b'BYE "x"\r\n')
        elif b == "MALFORMED":
            self.inbox.append(b"garbage without status\r\n")

    def sendall(self, data):
        self.world.events.append(("write", self.conn["id"], self.tls, bytes(data)))
        self.sent.append((self.tls, bytes(data)))
        self.conn["pending"] += bytes(data)
        pend = self.conn["pending"]
        if not pend.endswith(b"\r\n"):
            return
        first = pend.split(b" ", 1)[0].split(b"\r\n", 1)[0].upper()
        if first == b"AUTHENTICATE":
            mech = pend.split(b'"')[1] if pend.count(b'"') >= 2 else b"?"
            need = {b"LOGIN": 3}.get(mech, 1)
            if pend.count(b"\r\n") < need:
                return               # LOGIN: wait for the two extra lines
            self.conn["pending"] = b""
            self.conn["mech"] = mech
            self.reply_status(auth=True)
            return
        self.conn["pending"] = b""
        if first == b"STARTTLS":
            b = BEHAV[self.world.lazy.next(5, "starttls")]
            self.conn["starttls_reply"] = b
            self.push(b, b'OK "begin TLS"\r\n')
            return
        self.reply_status(auth=False, verb=first)

    def push(self, b, okline):
        if b == "OK":
            self.inbox.append(okline)
        elif b == "NO":
            self.inbox.append(b'NO "refused"\r\n')
        elif b == "BYE":
            self.inbox.append(b'BYE "bye"\r\n')
        elif b == "MALFORMED":
            self.inbox.append(b"* what\r\n")

    def reply_status(self, auth, verb=b""):
        b = BEHAV[self.world.lazy.next(5, "auth")] if auth else "OK"
        if auth and b == "OK":
            self.conn["authed"] = True
        lead = b""
        if verb == b"GETSCRIPT" and b == "OK":
            lead = b"{5}\r\nkeep;\r\n"
        if verb == b"LISTSCRIPTS" and b == "OK":
            lead = b'"a"\r\n'
        if verb == b"CAPABILITY" and b == "OK":
            lead = b'"SIEVE" "x"\r\n'
        if b == "OK":
            self.inbox.append(lead + b'OK "done"\r\n')
        else:
            self.push(b, b"")


class StubSocketModule:
    timeout = _real_socket.timeout
    error = _real_socket.error
    socket = _real_socket.socket

    def __init__(self, world):
        self.create_connection = world.create_connection


class StubSSLModule:
    SSLError = _real_ssl.SSLError

    def __init__(self, world):
        self.create_default_context = world.create_default_context


CREDS = [("user", "password", ""), ("usér", "päss wörd", "admin"), ("a,b=c", 'q"uo\\te', "z"), ("u", "", ""),
         ("user@example.org", "tok=en,x", "auth z"), ("€", "\U0001f511", "é"),
         ("same", "pw", "same"), ("l" * 45, "p" * 70, "z" * 20)]
NCREDS = len(CREDS)


def do_call(c, name, lazy, cred, world):
    login, password, authz = CREDS[cred]
    if name in ("connect", "connect-tls"):
        mech = AUTHMECHS[MECH_ORDER[lazy.next(min(NMECH, len(MECH_ORDER)), "mech")]]
        world.last_mech = mech
        return c.connect(login, password, authz_id=authz, starttls=(name == "connect-tls"), authmech=mech), mech
    if name == "havespace":
        return c.havespace("s", 3), None
    if name == "listscripts":
        return c.listscripts(), None
    if name == "getscript":
        return c.getscript("s"), None
    if name == "putscript":
        return c.putscript("s", "keep;"), None
    if name == "checkscript":
        return c.checkscript("keep;"), None
    if name == "deletescript":
        return c.deletescript("s"), None
    if name == "renamescript":
        return c.renamescript("a", "b"), None
    if name == "setactive":
        return c.setactive("s"), None
    if name == "capability":
        return c.capability(), None
    return c.logout(), None


def world_authed_before(world, idx, sid):
    """did an AUTHENTICATE exchange on socket sid (same TLS incarnation) end with OK before event idx?"""
    ok = False
    for j in range(idx):
        kind, s, is_tls, data = world.events[j]
        if s != sid:
            continue
        if kind == "tls":
            ok = False
        if kind == "authok":
            ok = True
    return ok


def _native_history(calls, cred, lazy):
    world = World(lazy)
    # the server marks an accepted AUTHENTICATE in the event log
    orig_reply = WSock.reply_status

    def reply_status(self, auth, verb=b""):
        before = self.conn["authed"]
        orig_reply(self, auth, verb)
        if auth and self.conn["authed"] and not before:
            world.events.append(("authok", self.conn["id"], self.tls, b""))
        elif auth and self.conn["authed"]:
            world.events.append(("authok", self.conn["id"], self.tls, b""))
    MS_socket, MS_ssl = MS.socket, MS.ssl
    MS.socket, MS.ssl = StubSocketModule(world), StubSSLModule(world)
    WSock.reply_status = reply_status
    history = []
    try:
        c = MS.Client("srv.example")
        for name in calls:
            nsock_before = len(world.socks)
            nev = len(world.events)
            try:
                ret, mech = do_call(c, name, lazy, cred, world)
                out = ("ret", ret)
            except MS.Error as e:
                out, mech = ("Error", str(e)), None
            except NotImplementedError as e:
                out, mech = ("NotImplementedError", str(e)), None
            except Hang:
                out, mech = ("Hang",), None
            except Exception as e:
                from engine.side import site_of
                out, mech = ("raises", "%s@%s" % (type(e).__name__, site_of(e))), None
            history.append((name, out, nev))
            check_call(world, c, name, out, nev, history, cred)
            if out[0] == "Error" and name.startswith("connect"):
                pass
    finally:
        MS.socket, MS.ssl = MS_socket, MS_ssl
        WSock.reply_status = orig_reply
        try:
            c.sock = None
        except Exception:
            pass
    return {"history": [(h[0], repr(h[1])) for h in history], "wire": [(e[0], e[1], e[2], e[3].decode("latin-1")) for e in world.events]}


def _cursock_id(world, upto):
    sid = None
    for e in world.events[:upto]:
        if e[0] == "open":
            sid = e[1]
    return sid


def check_call(world, c, name, out, nev, history, cred):
    new = world.events[nev:]
    what = {"history": [(h[0], repr(h[1])) for h in history],
            "wire": [(e[0], e[1], e[2], e[3].decode("latin-1")) for e in world.events]}
    if out[0] == "raises":
        if name in ("capability", "logout") and not world.socks:
            return      # calling these before any connect() is outside the property (no socket yet)
        if "digest_md5" in out[1]:
            raise Violation("C16/digest-md5/raises/%s" % out[1], what)
        raise Violation("C10/raises/%s/%s" % (name if not name.startswith("connect") else "connect", out[1]), what)
    if out[0] == "Hang":
        raise Violation("C10/hang/%s" % name, what)
    # (i) script-management verbs only after AUTHENTICATE ... OK on the current socket
    for k, (kind, sid, is_tls, data) in enumerate(new):
        if kind != "write":
            continue
        head = data.split(b" ", 1)[0].split(b"\r\n", 1)[0].upper()
        if head in SCRIPT_VERBS and not world_authed_before(world, nev + k, sid):
            raise Violation("C10/script-command-before-authentication/%s" % head.decode(), what)
        if head in SCRIPT_VERBS and sid != _cursock_id(world, nev + k + 1):
            raise Violation("C10/script-command-on-stale-socket/%s" % head.decode(), what)
    if name not in ("connect", "connect-tls", "capability", "logout"):
        wrote = any(e[0] == "write" for e in new)
        authed_now = False
        sid = _cursock_id(world, len(world.events))
        if sid is not None:
            authed_now = world_authed_before(world, nev, sid)
        if not authed_now:
            if out[0] != "Error" or wrote:
                raise Violation("C10/unauthenticated-call-not-refused/%s" % name, what)
    # (ii)/(iii) connect
    if name in ("connect", "connect-tls"):
        sid = None
        for e in new:
            if e[0] == "open":
                sid = e[1]
        auth_writes = [(k, e) for k, e in enumerate(new) if e[0] == "write" and e[3].upper().startswith(b"AUTHENTICATE")]
        tls_up = [k for k, e in enumerate(new) if e[0] == "tls"]
        if name == "connect-tls":
            for k, e in auth_writes:
                if not e[2]:
                    raise Violation("C10/credentials-before-tls", what)
            if not tls_up and out == ("ret", True):
                raise Violation("C10/connect-succeeded-without-tls", what)
        # the mechanism must be announced in the capabilities read last on this connection
        conn = None
        for s in world.socks:
            if s.conn["id"] == sid:
                conn = s.conn
        for k, e in auth_writes:
            mech = e[3].split(b'"')[1] if e[3].count(b'"') >= 2 else b"?"
            announced = (conn["sasl"] or b"").split()
            if mech not in announced:
                raise Violation("C10/mechanism-not-announced-after-handshake/%s" % mech.decode("latin-1"), what)
            check_payload(world, new, k, mech, cred, what)
        ok_seen = any(e[0] == "authok" for e in new)
        if (out == ("ret", True)) != ok_seen:
            raise Violation("C16/connect-result-vs-server-verdict/%s" % ("true-without-ok" if out == ("ret", True) else "ok-but-not-true"), what)
        if bool(c.authenticated) != ok_seen:
            raise Violation("C10/authenticated-flag-vs-server-verdict/%s" % ("stale-true" if c.authenticated else "false-after-ok"), what)
        check_selection(world, conn, new, auth_writes, history[-1], what)


def check_selection(world, conn, new, auth_writes, hist, what):
    """C16 M1: the mechanism on the wire is the statement's choice function"""
    if conn is None or conn.get("sasl") is None:
        return
    # which authmech did this connect ask for?  recorded by do_call through the lazy log: recompute from wire is
    # not possible, so the harness stores it in world.last_mech
    asked = world.last_mech
    announced = [m.decode("latin-1") for m in conn["sasl"].split()]
    implemented = ["DIGEST-MD5", "PLAIN", "LOGIN", "OAUTHBEARER"]
    if asked in implemented:
        want = asked if asked in announced else None
    else:
        want = next((m for m in implemented if m in announced), None)
    if not auth_writes:
        return      # connect failed before reaching authentication, or nothing qualified (checked below)
    used = auth_writes[0][1][3].split(b'"')[1].decode("latin-1") if auth_writes[0][1][3].count(b'"') >= 2 else "?"
    if len(auth_writes) > 1:
        raise Violation("C16/more-than-one-authenticate", what)
    if want is None:
        raise Violation("C16/authenticated-with-unqualified-mechanism/%s" % used, what)
    if used != want:
        raise Violation("C16/wrong-mechanism/%s-instead-of-%s" % (used, want), what)


def check_payload(world, new, k, mech, cred, what):
    """C16 M2: the exchange carries exactly the caller's credentials in the mechanism's wire format"""
    login, password, authz = [x.encode("utf-8") for x in CREDS[cred]]
    data = new[k][3]
    try:
        cmds = R.parse_commands(data)
    except R.ProtoError as e:
        raise Violation("C16/%s/malformed-exchange" % mech.decode("latin-1"), dict(what, why=str(e)))
    if mech == b"PLAIN":
        verb, args = cmds[0]
        if len(args) != 2:
            raise Violation("C16/PLAIN/arity", what)
        try:
            raw = base64.b64decode(args[1], validate=True)
        except Exception:
            raise Violation("C16/PLAIN/not-base64", what)
        if raw != authz + b"\0" + login + b"\0" + password:
            raise Violation("C16/PLAIN/payload", dict(what, decoded=raw.decode("latin-1")))
    elif mech == b"LOGIN":
        strs = []
        for verb, args in cmds:
            strs += [a for a in args if isinstance(a, bytes)]
        # AUTHENTICATE "LOGIN" then two base64 strings
        lines = data.split(b"\r\n")
        rest = b"".join(e[3] for e in new[k:] if e[0] == "write").split(b"\r\n")
        b64s = [x.strip(b'"') for x in rest[1:3]]
        try:
            dec = [base64.b64decode(x, validate=True) for x in b64s]
        except Exception:
            raise Violation("C16/LOGIN/not-base64", what)
        if dec != [login, password]:
            raise Violation("C16/LOGIN/payload", dict(what, decoded=[d.decode("latin-1") for d in dec]))
    elif mech == b"OAUTHBEARER":
        verb, args = cmds[0]
        try:
            raw = base64.b64decode(args[1], validate=True)
        except Exception:
            raise Violation("C16/OAUTHBEARER/not-base64", what)
        # RFC 7628 3.1: gs2-header "n,a=" saslname "," ^A kvpairs ^A ^A ; saslname escapes "," as =2C and "=" as =3D
        user = login.replace(b"=", b"=3D").replace(b",", b"=2C")
        want = b"n,a=" + user + b",\x01auth=Bearer " + password + b"\x01\x01"
        if raw != want:
            cause = "saslname-not-escaped" if (b"," in login or b"=" in login) and raw == b"n,a=" + login + b",\x01auth=Bearer " + password + b"\x01\x01" else "payload"
            raise Violation("C16/OAUTHBEARER/%s" % cause, dict(what, decoded=raw.decode("latin-1"), want=want.decode("latin-1")))


def _body(info, cred, choices):
    lazy = Lazy(choices)
    lazy.frozen_kinds = FREEZE
    cc = int(CRED_FIXED) if CRED_FIXED is not None else P.decode(cred, NCREDS)

    class Calls:
        """the call history comes from C10_SHAPE; a name ending in '!' runs with every server choice fixed
        to the first alternative (a successful plain-text PLAIN login), one ending in '*' is explored"""

        def __iter__(self_inner):
            for item in SHAPE:
                lazy.frozen = item.endswith("!")
                yield item.rstrip("!*")
            lazy.frozen = False

    def record():
        taken = list(lazy.taken)
        conc = {"cred": cc}
        for i in range(len(choices)):
            conc["x%d" % i] = taken[i] if i < len(taken) else 0
        info["concrete"] = conc
        return taken

    try:
        if is_tracing():
            lazy.resume = True
            with NoTracing():
                show = _native_history(Calls(), cc, lazy)
        else:
            show = _native_history(Calls(), cc, lazy)
    finally:
        taken = record()
    info["steps"] = len(SHAPE) + len(taken)
    info["show"] = show
    info["cls"] = "%s/%d/%s" % ("+".join(SHAPE), cc, "".join(str(t) for t in taken))


def _native_history_mech(calls, cred, lazy):
    return _native_history(calls, cred, lazy)


def hist(cred: int, x0: int, x1: int, x2: int, x3: int, x4: int, x5: int, x6: int, x7: int, x8: int, x9: int, x10: int,
         x11: int, x12: int, x13: int, x14: int, x15: int) -> bool:
    """
    pre: 0 <= cred < NCREDS
    pre: X0LO <= x0 < X0HI and X1LO <= x1 < X1HI
    post: _
    """
    return run("hist", _body, dict(cred=cred, choices=[x0, x1, x2, x3, x4, x5, x6, x7, x8, x9, x10, x11, x12, x13, x14, x15]))


def unguarded_methods():
    """A0: methods of Client that send a script-management verb without @authentication_required"""
    src = open(MS.__file__, encoding="utf-8").read()
    tree = ast.parse(src)
    bad = []
    verbs = {v.decode() for v in SCRIPT_VERBS}
    for node in tree.body:
        if isinstance(node, ast.ClassDef) and node.name == "Client":
            for fn in node.body:
                if not isinstance(fn, ast.FunctionDef):
                    continue
                sends = set()
                for sub in ast.walk(fn):
                    if isinstance(sub, ast.Call) and isinstance(sub.func, ast.Attribute) and "send_command" in sub.func.attr:
                        if sub.args and isinstance(sub.args[0], ast.Constant) and isinstance(sub.args[0].value, str):
                            if sub.args[0].value.upper() in verbs:
                                sends.add(sub.args[0].value.upper())
                decos = [d.id if isinstance(d, ast.Name) else getattr(d, "attr", "") for d in fn.decorator_list]
                if sends and "authentication_required" not in decos:
                    bad.append((fn.name, sorted(sends)))
    return bad
