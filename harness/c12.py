"""C12/C11: FiltersSet editing histories against the list model R4, and save/load round trip.
The history is a sequence of symbolic ints decoded lazily (an operation only forces the
parameters it uses); FiltersSet itself only ever sees concrete values, so it runs untraced."""
import io
import os

from engine.side import run, Violation, Skip, notrace
from harness import pcommon as P
from refs import ref_fs
from sievelib import commands as SC
from sievelib.factory import FiltersSet, FilterAlreadyExists
from sievelib.parser import Parser

NAMES = ["a", "b", "é c"]
# as passed by the caller: names may be bytes (decoded by the API); new names of update/replace also the empty string
NAME_ARGS = ["a", "b", "é c", b"a"]
NEWNAME_ARGS = ["a", "b", "é c", b"b", ""]


def _s(x):
    return x.decode("utf-8") if isinstance(x, bytes) else x
DEFS = [
    ([("Subject", ":is", "x")], [("fileinto", "F1")], "anyof"),
    ([("size", ":over", "100k"), ("notexists", "X-A", "X-B")], [("redirect", "u@example.org"), ("stop",)], "allof"),
    ([("From", ":notcontains", "y")], [("keep",)], "anyof"),
]
OPS = ["add", "update", "replace", "remove", "enable", "disable", "move"]
NOPS = len(OPS)
MODE = os.environ.get("C12_MODE", "c12")
OP0LO = int(os.environ.get("C12_OP0LO", "0"))
OP0HI = int(os.environ.get("C12_OP0HI", str(NOPS)))
N0LO = int(os.environ.get("C12_N0LO", "0"))
NN = int(os.environ.get("C12_NN", "3"))
ND = int(os.environ.get("C12_ND", "3"))
N0HI = int(os.environ.get("C12_N0HI", str(NN)))
OP1LO = int(os.environ.get("C12_OP1LO", "0"))
OP1HI = int(os.environ.get("C12_OP1HI", "99"))
M0LO = int(os.environ.get("C12_M0LO", "0"))
M0HI = int(os.environ.get("C12_M0HI", "99"))
NN1 = NN + 1 if NN == 3 else NN        # + the bytes alias
NN2 = (NN + (2 if MODE == "c12" else 1)) if NN == 3 else NN   # + a bytes name (and, for C12, the empty string)
PRETEXT = int(os.environ.get("C11_PRETEXT", "0"))
PRETEXTS = [("# Filter: ", "# Description: "), ("# rule:", "# about:"), ("# [Filter] (name)? ", "#* desc | ")]
# the last one carries the *other* configuration's marker text (allowed: it is not this set's marker)
DESCS_BY_PRETEXT = [[None, "plain text", "été # : \"q\"", "# rule: other marker"],
                    [None, "plain text", "été # : \"q\"", "# Filter: other marker"],
                    [None, "plain text", "été # : \"q\"", "# Filter: other marker"]]


def reconfigure():
    global MODE, OP0LO, OP0HI, N0LO, N0HI, PRETEXT, NN, ND, NN1, NN2, M0LO, M0HI, OP1LO, OP1HI
    OP1LO = int(os.environ.get("C12_OP1LO", "0"))
    OP1HI = int(os.environ.get("C12_OP1HI", "99"))
    M0LO = int(os.environ.get("C12_M0LO", "0"))
    M0HI = int(os.environ.get("C12_M0HI", "99"))
    NN = int(os.environ.get("C12_NN", "3"))
    NN1 = NN + 1 if NN == 3 else NN
    MODE = os.environ.get("C12_MODE", "c12")
    NN2 = (NN + (2 if MODE == "c12" else 1)) if NN == 3 else NN
    ND = int(os.environ.get("C12_ND", "3"))
    MODE = os.environ.get("C12_MODE", "c12")
    OP0LO = int(os.environ.get("C12_OP0LO", "0"))
    OP0HI = int(os.environ.get("C12_OP0HI", str(NOPS)))
    N0LO = int(os.environ.get("C12_N0LO", "0"))
    N0HI = int(os.environ.get("C12_N0HI", str(NN)))
    PRETEXT = int(os.environ.get("C11_PRETEXT", "0"))


def render_cmd(cmd):
    buf = io.StringIO()
    cmd.tosieve(target=buf)
    return buf.getvalue()


def make_content(k):
    fs = FiltersSet("tmp")
    c, a, m = DEFS[k]
    fs.addfilter("t", c, a, m)
    return fs.filters[0]["content"]


def def_text(k):
    return render_cmd(make_content(k))


DEF_TEXTS = [def_text(k) for k in range(len(DEFS))]


def _call(fn, *a, **kw):
    try:
        return ("ret", fn(*a, **kw))
    except FilterAlreadyExists:
        return ("exists", None)
    except Exception as e:
        return ("raises", "%s: %s" % (type(e).__name__, e))


def step(fs, model, op, n1, n2, k, d, log):
    """apply one concrete operation to both; compare; returns description"""
    name, name2 = NAME_ARGS[n1], NEWNAME_ARGS[n2]
    mname, mname2 = _s(name), _s(name2)
    opn = OPS[op]
    if opn == "add":
        c, a, m = DEFS[k]
        got = _call(fs.addfilter, name, c, a, m)
        want = _call2(model.add, mname, k)
        desc = "addfilter(%r, def%d)" % (name, k)
    elif opn == "update":
        c, a, m = DEFS[k]
        got = _call(fs.updatefilter, name, name2, c, a, m)
        want = _call2(model.update, mname, mname2, k)
        desc = "updatefilter(%r, %r, def%d)" % (name, name2, k)
    elif opn == "replace":
        # a content object for definition k built through the same set (as an application that
        # edits what getfilter() returned would have), so the set's requires cover it
        c, a, m = DEFS[k]
        fs.addfilter("\0tmp", c, a, m)
        content = fs.filters.pop()["content"]
        newname = None if d == 0 else name2
        mnewname = None if d == 0 else mname2
        descr = DESCS_BY_PRETEXT[PRETEXT][d] if MODE == "c11" else None
        got = _call(fs.replacefilter, name, content, newname, descr)
        want = _call2(model.replace, mname, k, mnewname, descr)
        desc = "replacefilter(%r, def%d, %r, %r)" % (name, k, newname, descr)
    elif opn == "remove":
        got = _call(fs.removefilter, name)
        want = _call2(model.remove, mname)
        desc = "removefilter(%r)" % name
    elif opn == "enable":
        got = _call(fs.enablefilter, name)
        want = _call2(model.enable, mname)
        desc = "enablefilter(%r)" % name
    elif opn == "disable":
        got = _call(fs.disablefilter, name)
        want = _call2(model.disable, mname)
        desc = "disablefilter(%r)" % name
    elif opn == "move":
        direction = "up" if d == 0 else "down"
        got = _call(fs.movefilter, name, direction)
        want = _call2(model.move, mname, direction)
        desc = "movefilter(%r, %r)" % (name, direction)
    elif opn == "get":
        got = _call(fs.getfilter, name)
        cid = model.get(name)
        desc = "getfilter(%r)" % name
        log.append(desc)
        if got[0] != "ret":
            raise Violation("C12/getfilter/raises", {"history": log, "got": repr(got)})
        if (got[1] is None) != (cid is None):
            raise Violation("C12/getfilter/presence", {"history": log, "got": repr(got), "model": cid})
        if cid is not None and render_cmd(got[1]) != DEF_TEXTS[cid]:
            raise Violation("C12/getfilter/not-own-content", {"history": log, "got": render_cmd(got[1]),
                                                              "want": DEF_TEXTS[cid]})
        return
    else:
        got = _call(fs.is_filter_disabled, name)
        want = ("ret", model.is_disabled(name))
        desc = "is_filter_disabled(%r)" % name
    log.append(desc)
    if got[0] == "raises":
        raise Violation("C12/%s/raises" % opn, {"history": log, "exc": got[1]})
    if got[0] != want[0] or bool(got[1]) != bool(want[1]) or (got[1] is None) != (want[1] is None and want[0] == "ret" and opn == "add"):
        if not (got[0] == want[0] and got[0] == "exists"):
            if got[0] != want[0] or bool(got[1]) != bool(want[1]):
                raise Violation("C12/%s/result" % opn, {"history": log, "got": repr(got), "model": repr(want)})
    compare_state(fs, model, log)


def _call2(fn, *a):
    try:
        return ("ret", fn(*a))
    except ref_fs.Exists:
        return ("exists", None)


def compare_state(fs, model, log):
    got = [(f["name"], f["enabled"]) for f in fs.filters]
    want = [(f["name"], f["enabled"]) for f in model.items]
    if [g[0] for g in got] != [w[0] for w in want]:
        raise Violation("C12/state/names-or-order", {"history": log, "got": got, "model": want})
    if got != want:
        raise Violation("C12/state/enabled-flag", {"history": log, "got": got, "model": want})
    for f, m in zip(fs.filters, model.items):
        text = render_cmd(f["content"])
        wrapped = text.startswith("if false {")
        if fs.is_filter_disabled(f["name"]) != (not f["enabled"]) or wrapped != (not f["enabled"]):
            raise Violation("C12/state/flag-rendering-disagree",
                            {"history": log, "name": f["name"], "enabled": f["enabled"],
                             "is_filter_disabled": fs.is_filter_disabled(f["name"]), "rendering": text})
        own = fs.getfilter(f["name"])
        if own is None or render_cmd(own) != DEF_TEXTS[m["cid"]]:
            raise Violation("C12/state/content", {"history": log, "name": f["name"],
                                                  "got": None if own is None else render_cmd(own),
                                                  "want": DEF_TEXTS[m["cid"]]})


def reload_roundtrip(fs, log):
    """C11: render -> parse -> from_parser_result -> render"""
    pre = PRETEXTS[PRETEXT]
    text1 = str(fs)
    p = Parser()
    try:
        ok = p.parse(text1)
    except Exception as e:
        raise Violation("C11/parse-raises/%s" % type(e).__name__, {"history": log, "text": text1})
    if ok is not True:
        raise Violation("C11/rendering-rejected", {"history": log, "text": text1, "error": p.error})
    fs2 = FiltersSet("reloaded", pre[0], pre[1])
    try:
        fs2.from_parser_result(p)
    except Exception as e:
        raise Violation("C11/load-raises/%s" % type(e).__name__, {"history": log, "text": text1, "exc": repr(e)})
    a = [(f["name"], f["enabled"], f.get("description") or "") for f in fs.filters]
    b = [(f["name"], f["enabled"], f.get("description") or "") for f in fs2.filters]
    if [x[0] for x in a] != [x[0] for x in b]:
        raise Violation("C11/names", {"history": log, "text": text1, "before": a, "after": b})
    if [x[1] for x in a] != [x[1] for x in b]:
        raise Violation("C11/enabled", {"history": log, "text": text1, "before": a, "after": b})
    if [x[2] for x in a] != [x[2] for x in b]:
        raise Violation("C11/description", {"history": log, "text": text1, "before": a, "after": b})
    if sorted(fs.requires) != sorted(fs2.requires):
        raise Violation("C11/requires", {"history": log, "before": fs.requires, "after": fs2.requires})
    text2 = str(fs2)
    p2 = Parser()
    if p2.parse(text2) is not True:
        raise Violation("C11/reloaded-rendering-rejected", {"history": log, "text": text2, "error": p2.error})
    t1 = [P.normalise(c) for c in p.result]
    t2 = [P.normalise(c) for c in p2.result]
    if t1 != t2:
        raise Violation("C11/filter-content", {"history": log, "first": text1, "second": text2})
    fs3 = FiltersSet("again", pre[0], pre[1])
    fs3.from_parser_result(p2)
    text3 = str(fs3)
    if text3 != text2:
        raise Violation("C11/not-a-fixed-point", {"history": log, "second": text2, "third": text3})


def _history_body(info, ops):
    """ops: list of (op, n1, n2, k, d) symbolic ints"""
    pre = PRETEXTS[PRETEXT] if MODE == "c11" else PRETEXTS[0]
    fs = FiltersSet("t", pre[0], pre[1])
    model = ref_fs.Model()
    log = []
    conc = {}
    first = True
    for i, (op, n1, n2, k, d) in enumerate(ops):
        if first:
            co = OP0LO + P.decode(op - OP0LO, OP0HI - OP0LO)
            c1 = N0LO + P.decode(n1 - N0LO, min(N0HI, NN1) - N0LO)
            first = False
        elif i == 1:
            co = OP1LO + P.decode(op - OP1LO, min(OP1HI, NOPS) - OP1LO)
            c1 = P.decode(n1, NN1)
        else:
            co = P.decode(op, NOPS)
            c1 = P.decode(n1, NN1)
        opn = OPS[co]
        ck = P.decode(k, ND) if opn in ("add", "update", "replace") else 0
        if ND == 1:
            # small pool: still make every edit change the content (add: def0, update: def1, replace: def2)
            ck = {"add": 0, "update": 1, "replace": 2}.get(opn, 0)
        if opn == "move":
            cd = P.decode(d, 2)
        elif opn == "replace":
            cd = P.decode(d, 4 if MODE == "c11" else 2)
        else:
            cd = 0
        if opn == "update" or (opn == "replace" and cd != 0):
            if i == 0:
                c2 = M0LO + P.decode(n2 - M0LO, min(M0HI, NN2) - M0LO)
            else:
                c2 = P.decode(n2, NN2)
        else:
            c2 = 0
        conc.update({"op%d" % i: co, "n%d" % i: c1, "m%d" % i: c2, "k%d" % i: ck, "d%d" % i: cd})
        info["concrete"] = dict(conc)
        for j in range(i + 1, len(ops)):
            info["concrete"].update({"op%d" % j: 4, "n%d" % j: 0, "m%d" % j: 0, "k%d" % j: 0, "d%d" % j: 0})
        notrace(step, fs, model, co, c1, c2, ck, cd, log)
        if MODE == "c11":
            notrace(reload_roundtrip, fs, log)
    info["steps"] = len(ops)
    info["show"] = list(log)
    info["cls"] = "|".join(log)


def hist2(op0: int, n0: int, m0: int, k0: int, d0: int, op1: int, n1: int, m1: int, k1: int, d1: int) -> bool:
    """
    pre: OP0LO <= op0 < OP0HI and N0LO <= n0 < N0HI and M0LO <= m0 < min(M0HI, NN2) and 0 <= k0 < ND and 0 <= d0 < 4
    pre: OP1LO <= op1 < min(OP1HI, NOPS) and 0 <= n1 < NN1 and 0 <= m1 < NN2 and 0 <= k1 < ND and 0 <= d1 < 4
    post: _
    """
    return run("hist2", _history_body, dict(ops=[(op0, n0, m0, k0, d0), (op1, n1, m1, k1, d1)]))


def hist3(op0: int, n0: int, m0: int, k0: int, d0: int, op1: int, n1: int, m1: int, k1: int, d1: int,
          op2: int, n2: int, m2: int, k2: int, d2: int) -> bool:
    """
    pre: OP0LO <= op0 < OP0HI and N0LO <= n0 < N0HI and M0LO <= m0 < min(M0HI, NN2) and 0 <= k0 < ND and 0 <= d0 < 4
    pre: OP1LO <= op1 < min(OP1HI, NOPS) and 0 <= n1 < NN1 and 0 <= m1 < NN2 and 0 <= k1 < ND and 0 <= d1 < 4
    pre: 0 <= op2 < NOPS and 0 <= n2 < NN1 and 0 <= m2 < NN2 and 0 <= k2 < ND and 0 <= d2 < 4
    post: _
    """
    return run("hist3", _history_body, dict(ops=[(op0, n0, m0, k0, d0), (op1, n1, m1, k1, d1), (op2, n2, m2, k2, d2)]))


def hist4(op0: int, n0: int, m0: int, k0: int, d0: int, op1: int, n1: int, m1: int, k1: int, d1: int,
          op2: int, n2: int, m2: int, k2: int, d2: int, op3: int, n3: int, m3: int, k3: int, d3: int) -> bool:
    """
    pre: OP0LO <= op0 < OP0HI and N0LO <= n0 < N0HI and M0LO <= m0 < min(M0HI, NN2) and 0 <= k0 < ND and 0 <= d0 < 4
    pre: OP1LO <= op1 < min(OP1HI, NOPS) and 0 <= n1 < NN1 and 0 <= m1 < NN2 and 0 <= k1 < ND and 0 <= d1 < 4
    pre: 0 <= op2 < NOPS and 0 <= n2 < NN1 and 0 <= m2 < NN2 and 0 <= k2 < ND and 0 <= d2 < 4
    pre: 0 <= op3 < NOPS and 0 <= n3 < NN1 and 0 <= m3 < NN2 and 0 <= k3 < ND and 0 <= d3 < 4
    post: _
    """
    return run("hist4", _history_body, dict(ops=[(op0, n0, m0, k0, d0), (op1, n1, m1, k1, d1), (op2, n2, m2, k2, d2),
                                                 (op3, n3, m3, k3, d3)]))
