"""C15: the client's view of the server stays correct over whole sessions.
A session of operations runs against the executable reference server (refs/ref_ms.Server), which
picks reply encodings and state-permitted NO outcomes; replies are cut into two segments.  After
every step the call's result must be the answer to that call's own command, computed from the
server's state by an independent rule, and nothing may be left unread."""
import os

from engine.side import run, Violation, Skip, notrace
from harness import pcommon as P
from harness.c14 import Lazy, _norm
from harness.mcommon import FakeSock, make_client, buffer_of, Feeder, Hang
from refs import ref_ms as R
from sievelib import managesieve as MS
try:
    from crosshair.tracers import NoTracing, is_tracing
except Exception:  # pragma: no cover
    NoTracing = None
    is_tracing = lambda: False  # noqa: E731

NAMES = ["a", 'q" ACTIVE']
BODIES = ["keep;\r\n", 'OK\r\n{3}\r\nNO "x"\r\n# é\x0b\x0c\x85\u2028\r\n']
OPS = ([("listscripts",)] + [("getscript", n) for n in range(2)] + [("putscript", n, b) for n in range(2) for b in range(2)] +
       [("deletescript", n) for n in range(2)] + [("setactive", n) for n in range(3)] +
       [("renamescript", 0, 1), ("renamescript", 1, 0)] + [("havespace", 0, 5), ("havespace", 1, 5000)] + [("checkscript", 1)])
NOPS = len(OPS)
CUTS = ["none", "between-cr-and-lf", "mid", "1", "last"]
L = int(os.environ.get("C15_L", "2"))
VERSION = os.environ.get("C15_VERSION", "1") == "1"
NCUTS = int(os.environ.get("C15_NCUTS", "5"))
OP0LO = int(os.environ.get("C15_OP0LO", "0"))
OP0HI = int(os.environ.get("C15_OP0HI", str(NOPS)))
INIT = int(os.environ.get("C15_INIT", "1"))
FREEZE = tuple(x for x in os.environ.get("C15_FREEZE", "").split(",") if x)
FORMTEXT = int(os.environ.get("C15_FORMTEXT", "0"))    # value of the text form when it is frozen (1 = literal, OK with a code)


def reconfigure():
    global FREEZE, FORMTEXT
    FREEZE = tuple(x for x in os.environ.get("C15_FREEZE", "").split(",") if x)
    FORMTEXT = int(os.environ.get("C15_FORMTEXT", "0"))
    _reconf()


def _reconf():
    global L, VERSION, NCUTS, OP0LO, OP0HI, INIT
    L = int(os.environ.get("C15_L", "2"))
    VERSION = os.environ.get("C15_VERSION", "1") == "1"
    NCUTS = int(os.environ.get("C15_NCUTS", "5"))
    OP0LO = int(os.environ.get("C15_OP0LO", "0"))
    OP0HI = int(os.environ.get("C15_OP0HI", str(NOPS)))
    INIT = int(os.environ.get("C15_INIT", "1"))


def cutter_for(kind):
    def cut(reply):
        n = len(reply)
        if kind == "none" or n < 2:
            return [reply]
        if kind == "1":
            p = 1
        elif kind == "mid":
            p = n // 2
        elif kind == "last":
            p = n - 1
        else:
            # between the CR and the LF of the last line terminator that is not the very end (else the first)
            p = reply.rfind(b"\r\n", 0, n - 2) + 1
            if p <= 0 or p >= n:
                p = reply.find(b"\r\n") + 1
            if p <= 0 or p >= n:
                p = n // 2
        return [reply[:p], reply[p:]]
    return cut


def expected(srv, op):
    """what a correct client must report, from the server's state BEFORE the command"""
    kind = op[0]
    enc = lambda i: NAMES[i].encode("utf-8")
    if kind == "listscripts":
        names = list(srv.scripts)
        act = srv.active.decode("utf-8") if srv.active is not None else None
        return (act, [n.decode("utf-8") for n in names if n != srv.active])
    if kind == "getscript":
        b = srv.scripts.get(enc(op[1]))
        return None if b is None else ("lines", _norm(b))
    if kind == "putscript":
        body = BODIES[op[2]].encode("utf-8")
        return not (srv.quota is not None and len(body) > srv.quota)
    if kind == "deletescript":
        n = enc(op[1])
        return n in srv.scripts and n != srv.active
    if kind == "setactive":
        if op[1] == 2:
            return True
        return enc(op[1]) in srv.scripts
    if kind == "renamescript":
        o, n = enc(op[1]), enc(op[2])
        return o in srv.scripts and n not in srv.scripts
    if kind == "havespace":
        return not (srv.quota is not None and op[2] > srv.quota)
    return True


def call(c, op):
    kind = op[0]
    if kind == "listscripts":
        return c.listscripts()
    if kind == "getscript":
        return c.getscript(NAMES[op[1]])
    if kind == "putscript":
        return c.putscript(NAMES[op[1]], BODIES[op[2]])
    if kind == "deletescript":
        return c.deletescript(NAMES[op[1]])
    if kind == "setactive":
        return c.setactive("" if op[1] == 2 else NAMES[op[1]])
    if kind == "renamescript":
        return c.renamescript(NAMES[op[1]], NAMES[op[2]])
    if kind == "havespace":
        return c.havespace(NAMES[op[1]], op[2])
    return c.checkscript(BODIES[op[1]])


def _native(lazy, nsteps):
    forms = [lazy.next(2, "form-name"), lazy.next(2, "form-body"), lazy.next(2, "form-text")]
    if "form-text" in FREEZE:
        forms[2] = FORMTEXT
    cut = CUTS[lazy.next(NCUTS, "cut")]

    def choose(what, n):
        if what.startswith("form:name"):
            return forms[0]
        if what.startswith("form:body"):
            return forms[1]
        return forms[2]
    scripts = {}
    active = None
    if INIT >= 1:
        scripts[NAMES[0].encode("utf-8")] = BODIES[0].encode("utf-8")
    if INIT >= 2:
        scripts[NAMES[1].encode("utf-8")] = BODIES[1].encode("utf-8")
        active = NAMES[1].encode("utf-8")
    srv = R.Server(scripts=scripts, active=active, version=VERSION, choose=choose, quota=40)
    sock = FakeSock([], eof="timeout", server=Feeder(srv), cutter=cutter_for(cut))
    c = make_client(sock, version=VERSION)
    log = []
    for i in range(nsteps):
        oi = lazy.next(OP0HI - OP0LO, "op0") + OP0LO if i == 0 else lazy.next(NOPS, "op")
        op = OPS[oi]
        if op[0] == "checkscript" and not VERSION:
            log.append("checkscript (skipped: server without VERSION)")
            continue
        emul = op[0] == "renamescript" and not VERSION
        want = expected(srv, op)
        seq_before = srv.seq
        what = {"session": log + [repr(op)], "encodings": forms, "cut": cut, "version": VERSION}
        try:
            got = call(c, op)
        except MS.Error as e:
            raise Violation("C15/%s/Error" % op[0], dict(what, exc=str(e)))
        except Hang:
            raise Violation("C15/%s/hang" % op[0], what)
        except Exception as e:
            from engine.side import site_of
            raise Violation("C15/%s/raises/%s@%s" % (op[0], type(e).__name__, site_of(e)), dict(what, exc=repr(e)))
        log.append("%r -> %r" % (op, got))
        what["session"] = list(log)
        if isinstance(want, tuple) and want and want[0] == "lines":
            ok = got is not None and _norm(got.encode("utf-8")) == want[1]
        elif op[0] == "listscripts":
            ok = got is not None and got[0] == want[0] and list(got[1]) == want[1]
        elif want is None:
            ok = got is None
        else:
            ok = (got is True) if want else (got is False or got is None)
        if not ok:
            raise Violation("C15/%s/wrong-answer" % op[0], dict(what, got=repr(got), want=repr(want)))
        if (want is False or want is None) and not emul:
            # a NO: errmsg carries the sequence number of the server's reply to THIS command
            tag = b"#%d" % srv.seq
            if not c.errmsg.endswith(tag):
                raise Violation("C15/%s/errmsg-of-another-reply" % op[0], dict(what, errmsg=c.errmsg, server_seq=srv.seq))
        left = buffer_of(c) + sock.unread()
        if left:
            raise Violation("C15/%s/bytes-left-unread" % op[0], dict(what, leftover=left))
        if srv.violations:
            raise Violation("C15/%s/server-saw-protocol-violation" % op[0], dict(what, violations=list(srv.violations)))
    return {"session": log, "encodings": forms, "cut": cut, "version": VERSION}


def _body(info, choices):
    lazy = Lazy(choices)
    lazy.frozen_kinds = FREEZE

    def record():
        taken = list(lazy.taken)
        info["concrete"] = {("x%d" % i): (taken[i] if i < len(taken) else 0) for i in range(len(choices))}
        return taken
    try:
        if is_tracing():
            lazy.resume = True
            with NoTracing():
                show = _native(lazy, L)
        else:
            show = _native(lazy, L)
    finally:
        taken = record()
    info["steps"] = len(taken)
    info["show"] = show
    info["cls"] = "".join("%x" % t if t < 16 else "(%d)" % t for t in taken)


def session(x0: int, x1: int, x2: int, x3: int, x4: int, x5: int, x6: int, x7: int) -> bool:
    """
    post: _
    """
    return run("session", _body, dict(choices=[x0, x1, x2, x3, x4, x5, x6, x7]))
