"""C02 harnesses P3 (error-message construction after multi-byte text) and P4 (byte-level mutation).
All bytes are concrete on a path: the symbolic ints choose how many multi-byte characters precede
the error, the line-ending style, which erroneous tail follows, and (P4) which byte of which valid
script is replaced by which byte."""
import os

from engine.side import run, Violation, Skip, notrace
from harness import pcommon as P
from harness.c01 import judge
import io

from sievelib import parser as SP
from sievelib.parser import Parser


def _fake_open(data):
    """what open() would hand out for a file holding `data`, whatever mode / encoding the caller asks for"""
    def opener(name, mode="r", buffering=-1, encoding=None, errors=None, newline=None, **kw):
        raw = io.BytesIO(data)
        if "b" in mode:
            return raw
        return io.TextIOWrapper(raw, encoding=encoding or "utf-8", errors=errors, newline=newline)
    return opener


def parse_both(text):
    """Parser.parse(bytes) and Parser.parse_file(<file with those bytes>): each judged, and they must agree"""
    p = Parser()
    try:
        out = p.parse(text)
    except Exception as e:
        out = e
    cls = judge("c02", out, p, text, 0, True)
    q = Parser()
    SP.open = _fake_open(text)
    try:
        try:
            out2 = q.parse_file("script.sieve")
        except Exception as e:
            out2 = e
    finally:
        del SP.open
    try:
        judge("c02", out2, q, text, 0, True)
    except Violation as v:
        raise Violation(v.signature.replace("C02/", "C02/parse_file/", 1), v.detail)
    if out2 is not out and out2 != out:
        raise Violation("C02/parse_file/verdict-differs-from-parse", {"script": text.decode("utf-8", "backslashreplace"),
                                                                     "parse": repr(out), "parse_file": repr(out2)})
    if out is False and (p.error != q.error or p.error_pos != q.error_pos):
        raise Violation("C02/parse_file/error-differs-from-parse", {"script": text.decode("utf-8", "backslashreplace"),
                                                                   "parse": [p.error, list(p.error_pos)],
                                                                   "parse_file": [q.error, list(q.error_pos)]})
    return cls

TAILS = [
    b";", b'keep "a";', b"foo;", b"if true", b"if true { keep; } }", b'"a"', b"keep ]",
    b"if anyof(true { }", b'fileinto "a";', b"if true { keep; ", b"keep; )", b"if not { }",
    b'require ["a",];', b"if anyof() { }", b'if header :foo "a" "b" { }', b"elsif true { }",
    b'if header :comparator "x" "a" "b" {}', b"if size :over 1 1 {}", b"true;",
    b"if keep { }", b"!", b'"\xff"', b"\xc3\xa9", b'"abc', b"/* x", b"text:\nabc",
    b"keep \xc3\xa9;", b"if true { keep; } else", b'if header "a" [ "b" ) { }', b"\x00",
    b'keep "\xc3\xa9" ;', b"if anyof(true,) {}", b"keep;;", b"stop true;", b"stop { }",
]
LEADS = [b"# ", b'require ["fileinto"]; # ', b'if header "\xc3\xa9" "', b"/* "]
LEAD_CLOSE = [b"", b"", b'" { keep; }', b" */"]
NT = len(TAILS)
NL = len(LEADS)
P3_LEAD = int(os.environ.get("P3_LEAD", "0"))
P3_CRLF = int(os.environ.get("P3_CRLF", "0"))

CORPUS = [
    b'require ["fileinto", "reject"];\nif header :contains "Subject" "a\xc3\xa9" {\n  fileinto "x";\n} else {\n  reject text:\nno\n.\n;\n}\n',
    b'# c\xc3\xa9\nif anyof (true, not false) { keep; stop; }\n',
    b'require "imap4flags";\nif hasflag "a" { setflag ["b", "c"]; }\n/* d */\n',
    b'if size :over 2K { discard; }\r\nelsif exists ["a","b"] { redirect "a@b"; }\r\n',
    b'keep;\rstop;\r# lone CR line ends\rdiscard;\r',
]
MUT_BYTES = [0x00, 0xFF, 0xC3, 0x22, 0x5C, 0x0A, 0x0D, 0x7B, 0x7D, 0x3B, 0x23, 0x5B, 0x28, 0x2C, 0x3A, 0x2A]
NC = len(CORPUS)
NM = len(MUT_BYTES)
MAXPOS = max(len(c) for c in CORPUS)


def _native_p3(k, lead, crlf, tail, trail):
    nl = b"\r\n" if crlf else b"\n"
    text = LEADS[lead] + b"\xc3\xa9" * k + LEAD_CLOSE[lead] + nl + TAILS[tail]
    if trail == 1:
        text += nl + b"# \xe2\x82\xac\xe2\x82\xac" + nl
    elif trail == 2:
        text += b" \xc3\xa9\xc3\xa9"
    return parse_both(text), text


def _p3_body(info, k, tail, trail):
    ck = P.decode(k, 9)
    cl = P3_LEAD
    cc = P3_CRLF
    ct = P.decode(tail, NT)
    cr = P.decode(trail, 3)
    info["concrete"] = dict(k=ck, tail=ct, trail=cr)
    cls, text = notrace(_native_p3, ck, cl, cc, ct, cr)
    info["show"] = notrace(lambda: text.decode("utf-8", "backslashreplace"))
    info["cls"] = "p3/%d/%d/%s" % (cl, ct, cls)
    info["steps"] = 5


def p3(k: int, tail: int, trail: int) -> bool:
    """
    pre: 0 <= k < 9 and 0 <= tail < NT and 0 <= trail < 3
    post: _
    """
    return run("p3", _p3_body, dict(k=k, tail=tail, trail=trail))


P4_SCRIPT = int(os.environ.get("P4_SCRIPT", "0"))
P4_LO = int(os.environ.get("P4_LO", "0"))
P4_HI = int(os.environ.get("P4_HI", "100000"))


def reconfigure():
    global P4_SCRIPT, P3_LEAD, P3_CRLF, P4_LO, P4_HI
    P4_SCRIPT = int(os.environ.get("P4_SCRIPT", "0"))
    P3_LEAD = int(os.environ.get("P3_LEAD", "0"))
    P3_CRLF = int(os.environ.get("P3_CRLF", "0"))
    P4_LO = int(os.environ.get("P4_LO", "0"))
    P4_HI = int(os.environ.get("P4_HI", "100000"))


def _native_p4(script, pos, b, op):
    src = CORPUS[script]
    if op == 0:
        text = src[:pos] + bytes([MUT_BYTES[b]]) + src[pos + 1:]
    elif op == 1:
        text = src[:pos] + bytes([MUT_BYTES[b]]) + src[pos:]
    else:
        text = src[:pos]      # truncation
    return parse_both(text), text


def _p4_body(info, pos, b, op):
    n = min(len(CORPUS[P4_SCRIPT]), P4_HI)
    cp = P4_LO + P.decode(pos - P4_LO, n - P4_LO)
    co = P.decode(op, 3)
    cb = 0 if co == 2 else P.decode(b, NM)
    info["concrete"] = dict(pos=cp, b=cb, op=co)
    cls, text = notrace(_native_p4, P4_SCRIPT, cp, cb, co)
    info["show"] = notrace(lambda: text.decode("utf-8", "backslashreplace"))
    info["cls"] = "p4/%d/%d/%d/%s" % (P4_SCRIPT, cp, co, cls)
    info["steps"] = 3


def p4(pos: int, b: int, op: int) -> bool:
    """
    pre: P4_LO <= pos < min(len(CORPUS[P4_SCRIPT]), P4_HI) and 0 <= b < NM and 0 <= op < 3
    post: _
    """
    return run("p4", _p4_body, dict(pos=pos, b=b, op=op))


# ------------------------------------------------------------------ P5: size (depth / length) of generated scripts
SHAPES = [
    ("nested-not", lambda d: b"if " + b"not " * d + b"true { keep; }"),
    ("nested-blocks", lambda d: b"if true { " * d + b"keep; " + b"} " * d),
    ("nested-anyof", lambda d: b"if " + b"anyof (" * d + b"true" + b")" * d + b" { stop; }"),
    ("long-list", lambda d: b"if exists [" + b", ".join([b'"h"'] * max(1, d)) + b"] { keep; }"),
    ("many-commands", lambda d: b"keep;\n" * d),
    ("unclosed-blocks", lambda d: b"if true { " * d),
    ("elsif-chain", lambda d: b"if true { keep; } " + b"elsif false { stop; } " * d + b"else { discard; }"),
    ("long-comment-and-string", lambda d: b"# " + b"x" * d + b"\n" + b'redirect "' + b"y" * d + b'";'),
]
DEPTHS = [1, 2, 30, 400, 1500, 6000]
NSH = len(SHAPES)
ND = len(DEPTHS)


def _native_p5(si, di):
    text = SHAPES[si][1](DEPTHS[di])
    return parse_both(text), "%s x %d (%d bytes)" % (SHAPES[si][0], DEPTHS[di], len(text))


def _p5_body(info, shape, depth):
    si = P.decode(shape, NSH)
    di = P.decode(depth, ND)
    info["concrete"] = dict(shape=si, depth=di)
    info["steps"] = 2
    cls, show = notrace(_native_p5, si, di)
    info["show"] = show
    info["cls"] = "p5/%d/%d/%s" % (si, di, cls)


def p5(shape: int, depth: int) -> bool:
    """
    pre: 0 <= shape < NSH and 0 <= depth < ND
    post: _
    """
    return run("p5", _p5_body, dict(shape=shape, depth=depth))
