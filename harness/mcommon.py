"""Shared devices for the ManageSieve harnesses: a fake socket and client construction."""
import socket

from sievelib import managesieve as MS


class Hang(Exception):
    """recv() was polled again and again at end of stream (the caller never gives up)."""


class FakeSock:
    """recv(n) returns at most n bytes of the head segment (short reads); when nothing is left it
    raises socket.timeout (eof='timeout') or returns b'' (eof='eof', with a fuel guard).
    sendall() appends to a log and, if a server is attached, queues its reply."""

    def __init__(self, segments=None, eof="timeout", server=None, cap=None, cutter=None, tls=False):
        self.inbox = [bytes(s) for s in (segments or []) if len(s)]
        self.eof = eof
        self.server = server
        self.cap = cap
        self.cutter = cutter          # callable(reply bytes) -> list of segments
        self.sent = []                # list of (tls?, bytes)
        self.tls = tls
        self.polls_at_eof = 0
        self.closed = False
        self.recv_calls = 0

    def settimeout(self, t):
        pass

    def close(self):
        self.closed = True

    def recv(self, n):
        self.recv_calls += 1
        if not self.inbox:
            if self.eof == "timeout":
                raise socket.timeout("timed out")
            self.polls_at_eof += 1
            if self.polls_at_eof > 50:
                raise Hang()
            return b""
        seg = self.inbox[0]
        k = n if n <= len(seg) else len(seg)
        if self.cap is not None and k > self.cap:
            k = self.cap
        out = seg[:k]
        if k == len(seg):
            self.inbox.pop(0)
        else:
            self.inbox[0] = seg[k:]
        return out

    def sendall(self, data):
        # no bytes(...) here: a constructor call would realise a symbolic value
        self.sent.append((self.tls, data))
        if self.server is not None:
            self.pending = getattr(self, "pending", b"") + data
            reply = self.server.feed(self.pending)
            if reply is not None:
                self.pending = b""
                if self.cutter is not None:
                    self.inbox.extend(s for s in self.cutter(reply) if len(s))
                elif reply:
                    self.inbox.append(reply)

    def written(self):
        out = b""
        for _, d in self.sent:
            out = out + d
        return out

    def unread(self):
        return b"".join(self.inbox)


def make_client(sock, version=False, authenticated=True, extra_caps=None):
    """a Client in the state a successful connect() leaves it in, without any I/O"""
    c = MS.Client("srv.example")
    c.sock = sock
    c.authenticated = authenticated
    caps = {"IMPLEMENTATION": "ref", "SASL": "PLAIN", "SIEVE": "fileinto"}
    if version:
        caps["VERSION"] = "1.0"
    if extra_caps:
        caps.update(extra_caps)
    c._Client__capabilities = caps
    return c


def buffer_of(c):
    return c._Client__read_buffer


class Feeder:
    """adapts refs.ref_ms.Server to FakeSock: a command may arrive in several sendall() calls
    (line, then extra lines); reply once the accumulated bytes parse as complete command(s)."""

    def __init__(self, server, expect_lines=None):
        self.server = server

    def feed(self, pending):
        from refs import ref_ms
        try:
            ref_ms.parse_commands(pending)
        except ref_ms.ProtoError as e:
            msg = str(e)
            if "not terminated" in msg or "shorter than announced" in msg or "at end of data" in msg:
                return None          # wait for more bytes
        return self.server.handle(pending)
