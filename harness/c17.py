"""C17: script names and bodies come back exactly as the server holds them.
The reference server (refs/ref_ms.Server) holds the data and serves it in every encoding RFC 5804
permits (quoted with escapes / literal, chosen per item by symbolic booleans); the real client
decodes.  Bodies and names come from pools biased towards protocol look-alikes."""
import os

from engine.side import run, Violation, Skip, notrace
from harness import pcommon as P
from harness.mcommon import FakeSock, make_client, buffer_of, Feeder, Hang
from refs import ref_ms as R
from sievelib import managesieve as MS

LINES = [b"keep;", b"OK", b'NO "x"', b"BYE", b"{5}", b"{5+}", b'"a" ACTIVE', b"", b"# \xc3\xa9t\xc3\xa9", b'"quoted"',
         b"OK (WARNINGS) {3}", b"x ACTIVE", "a\x0bb\x0cc\x1cd\x85e\u2028f".encode("utf-8"), b"trail\\"]
NLINES = len(LINES)
NAMES = [b"main", b"ACTIVE", b'a" ACTIVE', b"{5}", b"OK", b'q"uo\\te', b"\xc3\xa9t\xc3\xa9", b"two words", b'NO "x"', b"x active",
         b"{3+}", b'"', b"back\\"]
NNAMES = len(NAMES)
MODE = os.environ.get("C17_MODE", "body")
L0LO = int(os.environ.get("C17_LO", "0"))
L0HI = int(os.environ.get("C17_HI", "1000"))
MAXN = int(os.environ.get("C17_MAXN", "3"))


def reconfigure():
    global MODE, L0LO, L0HI, MAXN
    MAXN = int(os.environ.get("C17_MAXN", "3"))
    MODE = os.environ.get("C17_MODE", "body")
    L0LO = int(os.environ.get("C17_LO", "0"))
    L0HI = int(os.environ.get("C17_HI", "1000"))


def _norm_lines(b):
    """lines ignoring line-ending style and trailing blank lines"""
    text = b.replace(b"\r\n", b"\n").replace(b"\r", b"\n")
    lines = text.split(b"\n")
    while lines and lines[-1] == b"":
        lines.pop()
    return lines


def _session(scripts, active, forms):
    it = iter(forms)

    def choose(what, n):
        try:
            return next(it)
        except StopIteration:
            return 0
    srv = R.Server(scripts=scripts, active=active, version=True, choose=choose)
    sock = FakeSock([], eof="timeout", server=Feeder(srv))
    c = make_client(sock, version=True)
    return srv, sock, c


def _native_body(idx, eol, final_nl, form):
    lines = [LINES[i] for i in idx]
    sep = b"\r\n" if eol else b"\n"
    body = sep.join(lines) + (sep if final_nl else b"")
    srv, sock, c = _session({b"s": body}, None, [form, 0])
    try:
        got = c.getscript("s")
    except Exception as e:
        from engine.side import site_of
        raise Violation("C17/getscript/raises/%s@%s" % (type(e).__name__, site_of(e)), {"body": body, "exc": repr(e)})
    served = "quoted" if (form == 0 and R.can_quote(body)) else "literal"
    if got is None:
        raise Violation("C17/getscript/none/%s" % served, {"body": body})
    want = _norm_lines(body)
    have = _norm_lines(got.encode("utf-8"))
    if have != want:
        raise Violation("C17/getscript/%s/%s" % (served, _body_cause(want, have, body)),
                        {"stored": body, "served_as": served, "returned": got})
    left = buffer_of(c) + sock.unread()
    if left:
        raise Violation("C17/getscript/leftover", {"stored": body, "leftover": left})
    return {"stored": body.decode("latin-1"), "served_as": served}


def _body_cause(want, have, body):
    if len(have) == len(want) - 1 and have == want[1:]:
        return "first-line-dropped"
    if want and have and have[0] == b'"' + want[0] and have[-1].endswith(b'"'):
        return "quotes-kept"
    return "other"


def _body_body(info, l0, l1, l2, nl, eol, final_nl, form):
    n = P.decode(nl, MAXN + 1)        # 0..MAXN lines
    idx = []
    if n >= 1:
        idx.append(L0LO + P.decode(l0 - L0LO, min(NLINES, L0HI) - L0LO))
    if n >= 2:
        idx.append(P.decode(l1, NLINES))
    if n >= 3:
        idx.append(P.decode(l2, NLINES))
    ce = P.decode(eol, 2) if n >= 2 or True else 0
    cf = P.decode(final_nl, 2)
    cform = P.decode(form, 2)
    info["concrete"] = dict(l0=idx[0] if n >= 1 else L0LO, l1=idx[1] if n >= 2 else 0, l2=idx[2] if n >= 3 else 0, nl=n,
                            eol=ce, final_nl=cf, form=cform)
    info["steps"] = n + 3
    info["show"] = notrace(_native_body, idx, ce, cf, cform)
    info["cls"] = "body/%s/%d%d%d" % ("-".join(str(i) for i in idx), ce, cf, cform)


def body(l0: int, l1: int, l2: int, nl: int, eol: int, final_nl: int, form: int) -> bool:
    """
    pre: L0LO <= l0 < min(NLINES, L0HI) and 0 <= l1 < NLINES and 0 <= l2 < NLINES and 0 <= nl <= MAXN
    pre: 0 <= eol < 2 and 0 <= final_nl < 2 and 0 <= form < 2
    post: _
    """
    return run("body", _body_body, dict(l0=l0, l1=l1, l2=l2, nl=nl, eol=eol, final_nl=final_nl, form=form))


def _native_list(idx, act, forms):
    names = []
    for i in idx:
        if NAMES[i] not in names:
            names.append(NAMES[i])
    active = names[act] if act < len(names) else None
    srv, sock, c = _session({n: b"keep;" for n in names}, active, list(forms) + [0])
    try:
        got = c.listscripts()
    except Exception as e:
        from engine.side import site_of
        raise Violation("C17/listscripts/raises/%s@%s" % (type(e).__name__, site_of(e)), {"names": repr(names), "exc": repr(e)})
    want_active = active.decode("utf-8") if active is not None else None
    want_others = [n.decode("utf-8") for n in names if n != active]
    served = ["literal" if (f or not R.can_quote(n)) else "quoted" for n, f in zip(names, forms)]
    if got is None or got[0] != want_active or list(got[1]) != want_others:
        raise Violation("C17/listscripts/%s" % _list_cause(names, active, served, got),
                        {"stored": repr(names), "active": repr(active), "served_as": served, "returned": repr(got)})
    left = buffer_of(c) + sock.unread()
    if left:
        raise Violation("C17/listscripts/leftover", {"stored": repr(names), "leftover": left})
    return {"stored": repr(names), "active": repr(active), "served_as": served}


def _list_cause(names, active, served, got):
    """narrow label: which stored name is not reported as it is stored"""
    if got is None:
        return "none"
    rep = ([got[0]] if got[0] is not None else []) + list(got[1])
    for n, s in zip(names, served):
        if n.decode("utf-8") not in rep:
            esc = "escapes" if (b'"' in n or b"\\" in n) else "plain"
            return "%s-%s-name-%s" % (s, esc, "active" if n == active else "inactive")
    return "active-marker"


def _list_body(info, n0, n1, n2, cnt, act, f0, f1, f2):
    k = 1 + P.decode(cnt, MAXN)
    idx = [L0LO + P.decode(n0 - L0LO, min(NNAMES, L0HI) - L0LO)]
    forms = [P.decode(f0, 2)]
    if k >= 2:
        idx.append(P.decode(n1, NNAMES))
        forms.append(P.decode(f1, 2))
    if k >= 3:
        idx.append(P.decode(n2, NNAMES))
        forms.append(P.decode(f2, 2))
    ca = P.decode(act, k + 1)
    info["concrete"] = dict(n0=idx[0], n1=idx[1] if k >= 2 else 0, n2=idx[2] if k >= 3 else 0, cnt=k - 1, act=ca,
                            f0=forms[0], f1=forms[1] if k >= 2 else 0, f2=forms[2] if k >= 3 else 0)
    info["steps"] = 2 * k + 2
    info["show"] = notrace(_native_list, idx, ca, forms)
    info["cls"] = "list/%s/%d/%s" % ("-".join(str(i) for i in idx), ca, "".join(str(f) for f in forms))


def listing(n0: int, n1: int, n2: int, cnt: int, act: int, f0: int, f1: int, f2: int) -> bool:
    """
    pre: L0LO <= n0 < min(NNAMES, L0HI) and 0 <= n1 < NNAMES and 0 <= n2 < NNAMES and 0 <= cnt < MAXN and 0 <= act < 4
    pre: 0 <= f0 < 2 and 0 <= f1 < 2 and 0 <= f2 < 2
    post: _
    """
    return run("listing", _list_body, dict(n0=n0, n1=n1, n2=n2, cnt=cnt, act=act, f0=f0, f1=f1, f2=f2))
