"""C04-S2: string and list values survive the print step unchanged.
A raw string token is built from symbolic pieces (each piece: one arbitrary code point other than
quote/backslash, or an escape pair \\" / \\\\ / \\x); the command object is built through
check_next_arg exactly as the parser calls it (raw token text), serialised with the real tosieve
into a pure-Python buffer, and the still symbolic text must be the skeleton with the token
verbatim in its slot.  (That the lexer then reads such a token back as one string is E2's lemma
'every RFC 5228 quoted string is one string token'.)"""
import os

from engine.side import run, Violation, Skip, notrace
from harness import pcommon as P
from harness.c06 import Buf
from sievelib import commands as SC

NPIECES = int(os.environ.get("C04_NPIECES", "1"))
SLOT = int(os.environ.get("C04_SLOT", "0"))
MARK = '"QZQZQ"'


def reconfigure():
    global NPIECES, SLOT
    NPIECES = int(os.environ.get("C04_NPIECES", "1"))
    SLOT = int(os.environ.get("C04_SLOT", "0"))


def build(slot, tok):
    """the command tree the parser would build, with tok as the raw token text in the slot"""
    if slot == 0:
        cmd = SC.get_command_instance("redirect", None, False)
        cmd.check_next_arg("string", tok)
        return cmd
    if slot == 1:
        cmd = SC.get_command_instance("header", None, False)
        cmd.check_next_arg("tag", ":is")
        cmd.check_next_arg("string", '"Subject"')
        cmd.check_next_arg("stringlist", ['"a"', tok, '"b"'])
        top = SC.get_command_instance("if", None, False)
        top.check_next_arg("test", cmd)
        keep = SC.get_command_instance("keep", top, False)
        top.addchild(keep)
        return top
    if slot == 2:
        cmd = SC.get_command_instance("fileinto", None, False)
        cmd.check_next_arg("tag", ":flags", check_extension=False)
        cmd.check_next_arg("stringlist", [tok])
        cmd.check_next_arg("string", '"x"')
        return cmd
    if slot == 3:
        top = SC.get_command_instance("if", None, False)
        t = SC.get_command_instance("true", top, False)
        top.check_next_arg("test", t)
        inner = SC.get_command_instance("if", top, False)
        ex = SC.get_command_instance("exists", inner, False)
        ex.check_next_arg("string", tok)
        inner.check_next_arg("test", ex)
        act = SC.get_command_instance("vacation", inner, False)
        act.check_next_arg("tag", ":subject")
        act.check_next_arg("string", tok)
        act.check_next_arg("string", '"r"')
        inner.addchild(act)
        top.addchild(inner)
        return top
    if slot == 5:
        top = SC.get_command_instance("if", None, False)
        t = SC.get_command_instance("true", top, False)
        top.check_next_arg("test", t)
        rej = SC.get_command_instance("reject", top, False)
        rej.check_next_arg("string", tok)
        top.addchild(rej)
        top.addchild(SC.get_command_instance("stop", top, False))
        return top
    cmd = SC.get_command_instance("vacation", None, False)
    cmd.check_next_arg("tag", ":addresses")
    cmd.check_next_arg("stringlist", ['"a@b"', tok])
    cmd.check_next_arg("string", tok)
    return cmd


NSLOTS = 6
MARK_ML = "text:\nQZQZQ\n."


def render(cmd):
    buf = Buf()
    cmd.tosieve(target=buf)
    return buf.text()


def skeleton(slot):
    mark = MARK_ML if slot == 5 else MARK
    text = render(build(slot, mark))
    parts = text.split(mark)
    return parts


def _piece(kind, c):
    k = P.decode(kind, 4)
    if k == 0:
        return chr(c)
    if k == 1:
        return '\\"'
    if k == 2:
        return "\\\\"
    return "\\" + chr(c)


def _okcp(c):
    return 0 <= c < 0x110000 and not (0xD800 <= c <= 0xDFFF)


def _body(info, k0, c0, k1, c1, k2, c2):
    if SLOT == 5:
        # multi-line literal: body of arbitrary characters (the first one not '.', none a line break)
        if c0 == 46 or c0 == 10 or c0 == 13 or c1 == 10 or c1 == 13 or c2 == 10 or c2 == 13:
            raise Skip("line structure of the block is not the subject")
        body = chr(c0)
        if NPIECES >= 2:
            body = body + chr(c1)
        if NPIECES >= 3:
            body = body + chr(c2)
        tok = "text:\n" + body + "\n."
    else:
        tok = '"'
        if NPIECES >= 1:
            tok = tok + _piece(k0, c0)
        if NPIECES >= 2:
            tok = tok + _piece(k1, c1)
        if NPIECES >= 3:
            tok = tok + _piece(k2, c2)
        tok = tok + '"'
    parts = notrace(skeleton, SLOT)
    info["steps"] = NPIECES
    info["cls"] = "slot%d" % SLOT
    try:
        text = render(build(SLOT, tok))
    except Exception as e:
        from engine.side import site_of
        raise Violation("C04/value/tosieve-raises/%s@%s" % (type(e).__name__, site_of(e)),
                        lambda e=e: {"slot": SLOT, "token": tok, "exc": repr(e)})
    want = parts[0]
    i = 1
    while i < len(parts):
        want = want + tok + parts[i]
        i += 1
    if text != want:
        raise Violation("C04/value/changed-by-serialiser/slot%d" % SLOT,
                        lambda: {"slot": SLOT, "token": tok, "rendered": text, "expected": want})


def s2(k0: int, c0: int, k1: int, c1: int, k2: int, c2: int) -> bool:
    """
    pre: 0 <= k0 < 4 and 0 <= k1 < 4 and 0 <= k2 < 4
    pre: _okcp(c0) and c0 != 34 and c0 != 92
    pre: (_okcp(c1) and c1 != 34 and c1 != 92) if NPIECES >= 2 else c1 == 0
    pre: (_okcp(c2) and c2 != 34 and c2 != 92) if NPIECES >= 3 else c2 == 0
    post: _
    """
    return run("s2", _body, dict(k0=k0, c0=c0, k1=k1, c1=c1, k2=k2, c2=c2))
