"""C05: replies are read identically however the byte stream is segmented.

L1 (inductive step): for an arbitrary read buffer B and an arbitrary first segment S1 followed by
S2, reading from (buffer=B, segments=[S1, S2]) and from (buffer=B+S1, segments=[S2]) gives the same
result and leaves the same unconsumed bytes.  By induction on the number of segments every
segmentation is equivalent to 'everything already buffered'.
L2: whole operations over a reply corpus with symbolic cut points and recv() caps, then a sentinel."""
import ast
import os

from engine.side import run, Violation, Skip, notrace
from harness import pcommon as P
from harness.mcommon import FakeSock, make_client, buffer_of, Hang
from sievelib import managesieve as MS

LB = int(os.environ.get("C05_LB", "1"))
L1 = int(os.environ.get("C05_L1", "1"))
L2 = int(os.environ.get("C05_L2", "1"))
EOFMODE = os.environ.get("C05_EOF", "timeout")


def reconfigure():
    global LB, L1, L2, EOFMODE, OPI, TWO, NCAPS
    TWO = os.environ.get("C05_TWO", "0") == "1"
    NCAPS = int(os.environ.get("C05_NCAPS", "6"))
    LB = int(os.environ.get("C05_LB", "1"))
    L1 = int(os.environ.get("C05_L1", "1"))
    L2 = int(os.environ.get("C05_L2", "1"))
    EOFMODE = os.environ.get("C05_EOF", "timeout")
    OPI = int(os.environ.get("C05_OP", "0"))


def _outcome(fn, *a):
    try:
        return ("ret", fn(*a))
    except MS.Literal as e:
        return ("Literal", e.value)
    except MS.Response as e:
        return ("Response", e.code, e.data)
    except MS.Error as e:
        return ("Error", str(e))
    except Hang:
        return ("Hang",)
    except Exception as e:
        return ("raises", type(e).__name__)


def _state(c, sock):
    return buffer_of(c) + sock.unread()


def _pair(B, S1, S2):
    sa = FakeSock([S1, S2], eof=EOFMODE)
    ca = make_client(sa)
    ca._Client__read_buffer = B
    sb = FakeSock([S2], eof=EOFMODE)
    cb = make_client(sb)
    cb._Client__read_buffer = B + S1
    return ca, sa, cb, sb


def _block_body(info, B, S1, S2, n):
    ca, sa, cb, sb = _pair(B, S1, S2)
    ra = _outcome(ca._Client__read_block, n)
    rb = _outcome(cb._Client__read_block, n)
    info["steps"] = 2
    info["cls"] = "block"
    if ra != rb:
        raise Violation("C05/read_block/result-depends-on-segmentation",
                        lambda: {"buffer": B, "S1": S1, "S2": S2, "n": n, "segmented": repr(ra), "buffered": repr(rb)})
    if ra[0] == "ret" and _state(ca, sa) != _state(cb, sb):
        raise Violation("C05/read_block/leftover-depends-on-segmentation",
                        lambda: {"buffer": B, "S1": S1, "S2": S2, "n": n, "segmented": _state(ca, sa), "buffered": _state(cb, sb)})
    total = len(B) + len(S1) + len(S2)
    if ra[0] == "ret" and total >= n and len(ra[1]) != n:
        raise Violation("C05/read_block/short", lambda: {"buffer": B, "S1": S1, "S2": S2, "n": n, "got": ra[1]})


def l1_block(B: bytes, S1: bytes, S2: bytes, n: int) -> bool:
    """
    pre: len(B) == LB and len(S1) == L1 and len(S2) == L2
    pre: 0 <= n <= 8
    post: _
    """
    return run("l1_block", _block_body, dict(B=B, S1=S1, S2=S2, n=n))


def _line_body(info, B, S1, S2):
    ca, sa, cb, sb = _pair(B, S1, S2)
    ra = _outcome(ca._Client__read_line)
    rb = _outcome(cb._Client__read_line)
    info["steps"] = 2
    info["cls"] = "line"
    if ra != rb:
        raise Violation("C05/read_line/result-depends-on-segmentation",
                        lambda: {"buffer": B, "S1": S1, "S2": S2, "segmented": repr(ra), "buffered": repr(rb)})
    if _state(ca, sa) != _state(cb, sb):
        raise Violation("C05/read_line/leftover-depends-on-segmentation",
                        lambda: {"buffer": B, "S1": S1, "S2": S2, "segmented": _state(ca, sa), "buffered": _state(cb, sb)})


def l1_line(B: bytes, S1: bytes, S2: bytes) -> bool:
    """
    pre: len(B) == LB and len(S1) == L1 and len(S2) == L2
    pre: all(x < 128 for x in B) and all(x < 128 for x in S1) and all(x < 128 for x in S2)
    post: _
    """
    return run("l1_line", _line_body, dict(B=B, S1=S1, S2=S2))


def recv_call_sites():
    """L0: functions of managesieve.py in which .recv( is called (AST of the live source)"""
    src = open(MS.__file__, encoding="utf-8").read()
    tree = ast.parse(src)
    sites = []
    for node in ast.walk(tree):
        if isinstance(node, (ast.FunctionDef, ast.AsyncFunctionDef)):
            for sub in ast.walk(node):
                if isinstance(sub, ast.Call) and isinstance(sub.func, ast.Attribute) and sub.func.attr == "recv":
                    sites.append(node.name)
    return sorted(set(sites))


# ------------------------------------------------------------------ L2: whole operations
from refs import ref_ms as R  # noqa: E402

BODY = b'require "fileinto";\r\n# c \xc3\xa9\r\nfileinto "x";\r\n'
OPS = [
    ("capability", lambda c: c.capability()),
    ("listscripts", lambda c: c.listscripts()),
    ("getscript", lambda c: c.getscript("main")),
    ("putscript", lambda c: c.putscript("main", "keep;\r\n")),
    ("checkscript", lambda c: c.checkscript("keep;")),
    ("deletescript", lambda c: c.deletescript("main")),
    ("renamescript", lambda c: c.renamescript("a", "b")),
    ("setactive", lambda c: c.setactive("main")),
    ("havespace", lambda c: c.havespace("main", 10)),
    ("logout", lambda c: c.logout()),
]
NOP = len(OPS)
STATUS = [
    R.status_line(b"OK", None, b"done"),
    R.status_line(b"OK", None, b"done with a literal", "literal"),
    R.status_line(b"OK"),
    R.status_line(b"OK", b"WARNINGS", b"careful"),
    R.status_line(b"NO", b"QUOTA/MAXSIZE", b"too big"),
    R.status_line(b"NO", None, b"refused\r\nsecond line", "literal"),
    R.status_line(b"NO", b"NONEXISTENT", b"no such script", "literal"),
    R.status_line(b"BYE", None, b"bye"),
]
DATA = {
    "capability": [b'"IMPLEMENTATION" "ref"\r\n"SASL" "PLAIN LOGIN"\r\n"SIEVE" "fileinto"\r\n"STARTTLS"\r\n',
                   b'"IMPLEMENTATION" {3}\r\nref\r\n"SIEVE" "a"\r\n'],
    "listscripts": [b'"a"\r\n"main" ACTIVE\r\n', R.literal(b"lit name") + b"\r\n" + R.quote(b'q"x') + b" ACTIVE\r\n", b""],
    "getscript": [R.literal(BODY) + b"\r\n", R.literal(b"keep;") + b"\r\n", R.literal(b"") + b"\r\n",
                  R.literal(b"OK \"fake\"\r\nNO\r\n{3}\r\n") + b"\r\n"],
}


def corpus(opname):
    out = []
    for d in DATA.get(opname, [b""]):
        for s in STATUS:
            if d and not s.startswith(b"OK"):
                continue
            out.append(d + s)
    return out


CORPUS = [corpus(n) for n, _ in OPS]
SENTINEL = R.status_line(b"OK", None, b"sentinel")
CAPS = [None, 1, 3, 2, 7, 64]
NCAPS = int(os.environ.get("C05_NCAPS", "6"))
OPI = int(os.environ.get("C05_OP", "0"))
TWO = os.environ.get("C05_TWO", "0") == "1"


def _run_session(opi, reply, cuts, cap, eof):
    data = reply + SENTINEL
    pts = sorted(set(p for p in cuts if 0 < p < len(data)))
    segs, last = [], 0
    for p in pts:
        segs.append(data[last:p])
        last = p
    segs.append(data[last:])
    sock = FakeSock(segs, eof=eof, cap=cap)
    c = make_client(sock, version=True)
    r1 = _outcome(OPS[opi][1], c)
    mid = (c.errcode, c.errmsg)
    r2 = _outcome(lambda: c.deletescript("s"))
    return (r1, mid, r2, buffer_of(c) + sock.unread(), bytes(sock.written()))


def _native_l2(opi, ri, c1, c2, capi):
    reply = CORPUS[opi][ri]
    base = _run_session(opi, reply, [], None, "timeout")
    got = _run_session(opi, reply, [c1, c2], CAPS[capi], "timeout")
    if got != base:
        what = "result" if got[0] != base[0] else ("errcode-errmsg" if got[1] != base[1] else
                                                   ("next-operation" if got[2] != base[2] else
                                                    ("leftover" if got[3] != base[3] else "bytes-written")))
        raise Violation("C05/%s/%s-depends-on-segmentation" % (OPS[opi][0], what),
                        {"operation": OPS[opi][0], "reply": reply, "cuts": [c1, c2], "recv_cap": CAPS[capi],
                         "single_segment": repr(base)[:700], "segmented": repr(got)[:700]})
    return {"operation": OPS[opi][0], "reply": reply.decode("latin-1"), "cuts": [c1, c2], "recv_cap": CAPS[capi]}


def _l2_body(info, r, c1, c2, cap):
    nr = len(CORPUS[OPI])
    ri = P.decode(r, nr)
    n = len(CORPUS[OPI][ri]) + len(SENTINEL)
    k1 = P.decode(c1, n)
    # two cut points for short replies only (the space is quadratic in the length)
    k2 = (k1 + P.decode(c2 - c1, n - k1)) if (TWO and n <= 80) else k1
    ci = P.decode(cap, NCAPS)
    info["concrete"] = dict(r=ri, c1=k1, c2=k2, cap=ci)
    info["steps"] = 4
    info["show"] = notrace(_native_l2, OPI, ri, k1, k2, ci)
    info["cls"] = "%d/%d/%d/%d/%d" % (OPI, ri, k1, k2, ci)


def l2(r: int, c1: int, c2: int, cap: int) -> bool:
    """
    pre: 0 <= r < len(CORPUS[OPI]) and 0 <= c1 < 400 and c1 <= c2 < 400 and 0 <= cap < NCAPS
    post: _
    """
    return run("l2", _l2_body, dict(r=r, c1=c1, c2=c2, cap=cap))


# ------------------------------------------------------------------ L3: replies larger than the client's read size
BIG_BODY = b"".join(b"# line %04d of a long script\r\n" % i for i in range(220))           # ~6.6 kB
BIG_LIST = b"".join(R.quote(b"script-%04d-with-a-long-name-to-fill-the-buffer" % i) + b"\r\n" for i in range(190))  # ~9.8 kB
BIG = [
    ("getscript", 2, R.literal(BIG_BODY) + b"\r\n" + R.status_line(b"OK", None, b"done")),
    ("listscripts", 1, BIG_LIST + R.quote(b"the-active-one") + b" ACTIVE\r\n" + R.status_line(b"OK", None, b"done")),
    ("getscript", 2, R.literal(BIG_BODY) + b"\r\n" + R.status_line(b"NO", b"QUOTA", BIG_BODY[:4200], "literal")),
]
BIG_CUTS = [0, 1, 2, 3, 4, 5, 6, 7, 8, 9, 100, 4095, 4096, 4097, 4100, 5000, 8191, 8192, 8193]
BIG_CAPS = [None, 4096, 1000, 64]


def _native_l3(bi, ci, capi):
    opname, opi, reply = BIG[bi]
    base = _run_session(opi, reply, [], None, "timeout")
    cut = BIG_CUTS[ci]
    got = _run_session(opi, reply, [cut, cut], BIG_CAPS[capi], "timeout")
    if got != base:
        what = "result" if got[0] != base[0] else ("next-operation" if got[2] != base[2] else "leftover")
        raise Violation("C05/big-%s/%s-depends-on-segmentation" % (opname, what),
                        {"operation": opname, "reply_bytes": len(reply), "cut": cut, "recv_cap": BIG_CAPS[capi],
                         "single_segment": repr(base)[:300], "segmented": repr(got)[:300]})
    if base[0][0] != "ret":
        raise Violation("C05/big-%s/not-readable-at-all" % opname, {"single_segment": repr(base)[:300]})
    return {"operation": opname, "reply_bytes": len(reply), "cut": cut, "recv_cap": BIG_CAPS[capi]}


def _l3_body(info, b, c, cap):
    bi = P.decode(b, len(BIG))
    ci = P.decode(c, len(BIG_CUTS))
    pi = P.decode(cap, len(BIG_CAPS))
    info["concrete"] = dict(b=bi, c=ci, cap=pi)
    info["steps"] = 3
    info["show"] = notrace(_native_l3, bi, ci, pi)
    info["cls"] = "l3/%d/%d/%d" % (bi, ci, pi)


def l3(b: int, c: int, cap: int) -> bool:
    """
    pre: 0 <= b < len(BIG) and 0 <= c < len(BIG_CUTS) and 0 <= cap < len(BIG_CAPS)
    post: _
    """
    return run("l3", _l3_body, dict(b=b, c=c, cap=cap))
