"""C01-T4 (and C03/C04/C18 on the same space): grammar-directed generator of valid scripts from the
reference table R1, plus at most one edit.  Every structural decision of the generator (how many
commands, which command, which optional tags in which order, string / list / multi-line form,
nesting, elsif/else, layout) and the edit (position, kind) is a symbolic choice drawn lazily, so
CrossHair enumerates the generator's whole (bounded) tree.  The script is concrete on each path and
runs through the real lexer and parser untraced."""
import os

from engine.side import run, Violation, Skip, notrace
from harness import pcommon as P
from harness.c01 import judge, _txt
from harness.c14 import Lazy
from refs import ref_sieve as R
try:
    from crosshair.tracers import NoTracing, is_tracing
except Exception:  # pragma: no cover
    NoTracing = None
    is_tracing = lambda: False  # noqa: E731

MODE = os.environ.get("T1_MODE", "c01")
DEPTH = int(os.environ.get("T4_DEPTH", "1"))        # block nesting
TDEPTH = int(os.environ.get("T4_TDEPTH", "1"))      # test nesting
NTOP = int(os.environ.get("T4_NTOP", "1"))
EDIT = os.environ.get("T4_EDIT", "1") == "1"
TOP = os.environ.get("T4_TOP", "")                  # restrict the first top-level command kind: action:<i> | if
MAXTAGS = int(os.environ.get("T4_MAXTAGS", "1"))


def reconfigure():
    global MODE, DEPTH, TDEPTH, NTOP, EDIT, TOP, MAXTAGS
    MODE = os.environ.get("T1_MODE", "c01")
    DEPTH = int(os.environ.get("T4_DEPTH", "1"))
    TDEPTH = int(os.environ.get("T4_TDEPTH", "1"))
    NTOP = int(os.environ.get("T4_NTOP", "1"))
    EDIT = os.environ.get("T4_EDIT", "1") == "1"
    TOP = os.environ.get("T4_TOP", "")
    MAXTAGS = int(os.environ.get("T4_MAXTAGS", "1"))


ACTIONS = [n for n, c in sorted(R.CMDS.items()) if c["role"] == "command" and n not in ("if", "elsif", "else", "require")]
TESTS = [n for n, c in sorted(R.CMDS.items()) if c["role"] == "test" and n not in ("not", "anyof", "allof")]
EDIT_TOKENS = [b";", b"{", b"}", b",", b'"z"', b"keep", b"true", b":is", b"(", b")", b"]", b"1"]


def _value(L, typ):
    """token list for one argument of the given type"""
    if typ == R.NUMBER:
        return [b"2K" if L.next(2, "num") else b"1"]
    if typ == R.STRING:
        return [b"text:\nml\n." if L.next(3, "strform") == 2 else b'"s"']
    k = L.next(3, "listform")
    if k == 0:
        return [b'"s"']
    if k == 1:
        return [b"[", b'"a"', b"]"]
    return [b"[", b'"a"', b",", b'"b\\"c"', b"]"]


def _param(L, ptype, pvalues):
    if pvalues is not None:
        return [pvalues[L.next(len(pvalues), "pval")].encode()]
    return _value(L, ptype)


def gen_args(L, spec):
    toks = []
    tags = sorted(spec["tags"])
    slots_used = set()
    for slot in spec["reqtags"]:
        t = [x for x in tags if spec["tags"][x][0] == slot]
        tag = t[L.next(len(t), "reqtag")]
        slots_used.add(slot)
        toks.append(tag.upper().encode() if L.next(4, "case") == 3 else tag.encode())
    ntags = L.next(MAXTAGS + 1, "ntags") if tags else 0
    for _ in range(ntags):
        free = [x for x in tags if spec["tags"][x][0] not in slots_used]
        if not free:
            break
        tag = free[L.next(len(free), "tag")]
        slot, ptype, pvalues, ext = spec["tags"][tag]
        slots_used.add(slot)
        toks.append(tag.upper().encode() if L.next(4, "case") == 3 else tag.encode())
        if ptype is not None:
            toks += _param(L, ptype, pvalues)
    variants = R._variants(spec["pos"])
    var = variants[L.next(len(variants), "posvariant")] if len(variants) > 1 else variants[0]
    for typ in var:
        toks += _value(L, typ)
    return toks


def gen_test(L, d):
    kinds = ["simple", "simple", "not", "anyof"] if d < TDEPTH else ["simple"]
    k = kinds[L.next(len(kinds), "testkind")]
    if k == "simple":
        name = TESTS[L.next(len(TESTS), "test")]
        return [name.encode()] + gen_args(L, R.CMDS[name])
    if k == "not":
        return [b"not"] + gen_test(L, d + 1)
    n = 1 + L.next(2, "ntests")
    toks = [b"allof" if L.next(2, "anyall") else b"anyof", b"("]
    for i in range(n):
        if i:
            toks.append(b",")
        toks += gen_test(L, d + 1)
    return toks + [b")"]


def gen_block(L, depth):
    toks = [b"{"]
    for _ in range(L.next(3, "blocklen")):
        toks += gen_cmd(L, depth)
    return toks + [b"}"]


def gen_cmd(L, depth, first=False):
    if first and TOP.startswith("action:"):
        kind = 0
    elif first and TOP == "if":
        kind = 1
    else:
        kind = L.next(2 if depth < DEPTH else 1, "cmdkind")
    if kind == 0:
        if first and TOP.startswith("action:"):
            name = ACTIONS[int(TOP.split(":")[1])]
        else:
            name = ACTIONS[L.next(len(ACTIONS), "action")]
        word = name.capitalize() if L.next(5, "case") == 4 else name
        return [word.encode()] + gen_args(L, R.CMDS[name]) + [b";"]
    toks = [b"if"] + gen_test(L, 0) + gen_block(L, depth + 1)
    tail = L.next(4, "iftail")
    if tail in (1, 3):
        toks += [b"elsif"] + gen_test(L, TDEPTH) + gen_block(L, depth + 1)
    if tail in (2, 3):
        toks += [b"else"] + gen_block(L, depth + 1)
    return toks


def gen_script(L):
    toks = []
    n = 1 + (L.next(NTOP, "ntop") if NTOP > 1 else 0)
    for i in range(n):
        toks += gen_cmd(L, 0, first=(i == 0))
    return toks


def render(L, toks):
    """layout choices: LF / CRLF, one comment somewhere"""
    eol = b"\r\n" if L.next(2, "eol") else b"\n"
    if eol == b"\r\n":
        # sievelib's text: rule does not take CRLF (known finding): keep CRLF scripts free of multi-line strings
        toks = [b'"s"' if t.startswith(b"text:") else t for t in toks]
    res = R.check(P.ref_tokens(b"\n".join(toks))[0], loaded=lambda e: True)
    exts = []
    for e, _ in res.ext_uses:
        if e not in exts:
            exts.append(e)
    head = b""
    if exts:
        form = L.next(3, "reqform")
        if form == 0:
            head = b"require [" + b", ".join(b'"%s"' % e.encode() for e in exts) + b"];" + eol
        elif form == 1:
            # one require command per extension (string form), first one repeated at the end
            head = b"".join(b'require "%s";' % e.encode() + eol for e in exts + exts[:1])
        else:
            half = (len(exts) + 1) // 2
            head = b"require [" + b", ".join(b'"%s"' % e.encode() for e in exts[:half]) + b"];" + eol
            if exts[half:]:
                head += b"require [" + b", ".join(b'"%s"' % e.encode() for e in exts[half:]) + b"];" + eol
    cpos = L.next(3, "comment")
    tailkind = L.next(3, "tail")      # 0: final line end; 1: no final line end; 2: trailing '# c' without line end
    out = head
    for i, t in enumerate(toks):
        if cpos == 1 and i == 1:
            out += b"# c" + eol
        if cpos == 2 and i == len(toks) // 2:
            out += b"/* c */ "
        out += t + (eol if (t in (b";", b"{", b"}") or t.startswith(b"text:")) else b" ")
    if tailkind >= 1 and out.endswith(eol):
        out = out[:-len(eol)]
    if tailkind == 2:
        out += b" # bye"
    return out, len(P.ref_tokens(head)[0]) if head else 0


def apply_edit(L, toks):
    if not EDIT:
        return toks, "none"
    kind = L.next(4 + len(EDIT_TOKENS), "editkind")
    if kind == 0:
        return toks, "none"
    pos = L.next(len(toks), "editpos")
    t = list(toks)
    if kind == 1:
        del t[pos]
        return t, "delete@%d" % pos
    if kind == 2:
        t.insert(pos, t[pos])
        return t, "duplicate@%d" % pos
    if kind == 3:
        if pos + 1 >= len(t):
            return toks, "none"
        t[pos], t[pos + 1] = t[pos + 1], t[pos]
        return t, "swap@%d" % pos
    t[pos] = EDIT_TOKENS[kind - 4]
    return t, "replace@%d:%s" % (pos, EDIT_TOKENS[kind - 4].decode())


CORPUS = [
    b"""if anyof (header :contains ["To", "Cc"] "a", not address :localpart :is "from" ["x", "y"], size :over 10K) {
  fileinto :copy :create "INBOX.a"; stop;
} elsif allof (exists ["X-A", "X-B"], envelope :domain :matches "from" "*.org") {
  if not true { redirect :copy "a@b"; } else { keep :flags ["\\\\Seen", "x"]; discard; }
} else { reject text:
go away
..dot
.
; }""",
    b"""if header :comparator "i;octet" :count "gt" "Received" ["3"] { setflag "f" ["a", "b"]; addflag ["c"]; removeflag "f" "c"; }
if hasflag :contains "f" ["a"] { vacation :days 3 :subject "s" :from "a@b" :addresses ["a@b", "c@d"] :handle "h" :mime "gone"; }
elsif hasflag "x" { vacation :seconds 60 "back soon"; }""",
    b"""if body :content ["text", "html"] :contains "x" { set "a" "b"; }
if anyof (body :raw :regex "a.*", body :text :is ["a"], date :zone "+0100" :value "ge" "date" "year" "2020",
          date :originalzone "received" "date" ["2020-01-01"], currentdate :zone "-0500" :is "weekday" ["0", "6"],
          currentdate :value "lt" "hour" "12", false) { keep; }""",
    b"""if allof (not not exists "a", anyof (true), allof (false, address :all :comparator "i;ascii-casemap" :contains "to" "me")) {
  if size :under 1M { if header :value "le" :comparator "i;ascii-casemap" "x" "5" { fileinto :flags "a" "b"; } }
  elsif true { stop; }
}
keep;""",
    b"""redirect "a@b"; fileinto "x"; reject "no"; discard; keep; stop; setflag "a"; addflag "v" "a"; removeflag ["a"];
vacation "r"; set "x" "y"; redirect :copy "c@d"; fileinto :create "y"; keep :flags "z";""",
    # upper / mixed case tags whose parameter depends on the tag, strings with CR LF inside
    b"""if anyof (header :COUNT "ge" :comparator "i;ascii-casemap" "a" "2", body :Content "text" :Contains "x",
          date :Zone "+0100" :VALUE "lt" "date" "year" "2030", hasflag :Count "ge" "2", hasflag :CONTAINS "v" "f") {
  vacation :Subject "two\r\nlines" :ADDRESSES ["a@b", "x\r\ny"] "gone\r\n"; fileinto :FLAGS ["a"] :Copy "b";
}""",
    # equal siblings everywhere: tests, commands, list items, nested lists of equal tests
    b"""if anyof (true, false, true) { keep; keep; }
if allof (not false, not false, anyof (exists ["a", "a"], exists ["a", "a"])) { if true { stop; } if true { stop; } }
elsif anyof (header :is "a" "b", header :is "a" "b") { discard; discard; }""",
    # comment look-alikes inside multi-line strings (only explored in the modes of CORPUS_MODES)
    b"""reject text:
see /* this */ and # that
.
;
if true { vacation :mime text:
/* only a comment */
.
; }""",
]
CORPUS_MODES = {7: ("c03",)}
EOL_CHOICES = [b"\n", b"\r\n"]


def corpus_tokens(i):
    toks, err = P.ref_tokens(CORPUS[i])
    assert err is None, err
    return [t[1] for t in toks]


CORPUS_TOKENS = [corpus_tokens(i) for i in range(len(CORPUS))]
NCORPUS = len(CORPUS)
SCRIPT = int(os.environ.get("T4_SCRIPT", "0"))
K0LO = int(os.environ.get("T4_KLO", "0"))
K0HI = int(os.environ.get("T4_KHI", "100"))
_reconf_gen = reconfigure


def reconfigure():  # noqa: F811
    global SCRIPT, K0LO, K0HI
    _reconf_gen()
    SCRIPT = int(os.environ.get("T4_SCRIPT", "0"))
    K0LO = int(os.environ.get("T4_KLO", "0"))
    K0HI = int(os.environ.get("T4_KHI", "100"))


def _native(L):
    from sievelib.parser import Parser
    toks = CORPUS_TOKENS[SCRIPT]
    toks2, edit = apply_edit(L, toks)
    text, _ = render(L, toks2)
    p = Parser()
    try:
        out = p.parse(text)
    except Exception as e:
        out = e
    cls = judge(MODE, out, p, text, 0, True)
    if edit == "none" and out is not True:
        # the unedited corpus script is valid for the reference: judge() has already compared; this is the
        # positive witness that the harness is not vacuous
        pass
    return {"script": _txt(text), "edit": edit}, "%s/%s" % (cls, edit.split(":")[0])


def _body(info, choices):
    L = Lazy(choices)
    L.frozen_kinds = tuple(x for x in os.environ.get("T4_FREEZE", "").split(",") if x)

    def record():
        taken = list(L.taken)
        info["concrete"] = {("x%d" % i): (taken[i] if i < len(taken) else 0) for i in range(len(choices))}
        return taken
    try:
        if is_tracing():
            L.resume = True
            with NoTracing():
                show, cls = _native(L)
        else:
            show, cls = _native(L)
    finally:
        taken = record()
    info["steps"] = len(taken)
    info["show"] = show
    info["cls"] = cls + "/" + "".join("%x" % min(t, 15) for t in taken)


def t4(x0: int, x1: int, x2: int, x3: int, x4: int, x5: int) -> bool:
    """
    pre: K0LO <= x0 < K0HI
    post: _
    """
    return run("t4", _body, dict(choices=[x0, x1, x2, x3, x4, x5]))
