"""C13: outcomes are independent of anything that happened before (inductive form).

Before parse(s) every attribute the Parser / Lexer / commands module keep between calls is set to
an arbitrary (symbolic) value of its type -- CrossHair's own symbolic lists/tuples/strings, so a
junk value is only explored when the code under test reads it.  If the outcome equals that of a
pristine parser for an arbitrary pre-state, it equals it after every history."""
import ast
import io
import json
import os
from typing import List, Optional, Tuple

from engine.side import run, Violation, Skip, notrace
from harness import pcommon as P
from harness.c01 import _txt
from sievelib import commands as SC
from sievelib import parser as SP
from sievelib.parser import Parser

HERE = os.path.dirname(os.path.abspath(__file__))


def _corpus():
    out = []
    for o in json.load(open(os.path.join(HERE, "..", "refs", "suite_scripts.json"))):
        b = bytes.fromhex(o["hex"])
        if len(b) < 700:
            out.append(b)
    out += [
        b"keep", b"if true {", b'require "fileinto"; fileinto "a"', b'if header [ "a", ', b"if anyof ( true",
        b'fileinto "a";', b'require "fileinto"; fileinto "a";', b'require ["copy"]; redirect :copy "a";',
        b'redirect :copy "a";', b'# Filter: x\nkeep;\n# tail', b"if true { keep; } }", b"keep ]",
        b'require "imap4flags"; if hasflag "a" { keep; }', b'if hasflag "a" { keep; }',
        b'require "relational"; if header :count "gt" "a" "1" { keep; }', b'if header :count "gt" "a" "1" { keep; }',
        b'require "regex"; if header :regex "a" "b" { stop; }', b'if header :regex "a" "b" { stop; }',
        b'require "vacation"; vacation :seconds 1 "a";', b"", b"# only a comment\n", b'if header "a" [',
        b'require "body"; if body :content "text" "a" { discard; }', b'"a"', b"if not",
        b'require "comparator-i;ascii-numeric"; if header :comparator "i;ascii-numeric" "a" "1" { keep; }',
        b'if header :comparator "i;ascii-numeric" "a" "1" { keep; }', b'require ["x-unknown", "fileinto"]; fileinto "a";',
        b'require "envelope"; if envelope :all :is "from" "a" { stop; }', b"if true keep;", b'require ["a" "b"];',
        b"if anyof(true false) { keep; }",
    ]
    seen, uniq = set(), []
    for s in out:
        if s not in seen:
            seen.add(s)
            uniq.append(s)
    return uniq


CORPUS = _corpus()
NS = len(CORPUS)
SLO = int(os.environ.get("C13_LO", "0"))
SHI = int(os.environ.get("C13_HI", str(NS)))


def reconfigure():
    global SLO, SHI
    SLO = int(os.environ.get("C13_LO", "0"))
    SHI = int(os.environ.get("C13_HI", str(NS)))


def definitions_snapshot():
    """everything the commands module shares between all parses: argument tables and class attributes"""
    snap = {}
    for n, v in sorted(vars(SC).items()):
        if isinstance(v, dict) and n in ("comparator", "address_part", "match_type"):
            snap[n] = repr(v)
        if isinstance(v, type) and n.endswith("Command"):
            for a in ("args_definition", "extension", "accept_children", "must_follow", "variable_args_nb",
                      "non_deterministic_args", "_type"):
                if a in vars(v):
                    snap[n + "." + a] = repr(vars(v)[a])
    return snap


def outcome(p, script):
    try:
        v = p.parse(script)
    except Exception as e:
        return ("raises", type(e).__name__)
    if v is True:
        buf = io.StringIO()
        for c in p.result:
            c.tosieve(target=buf)
        return (True, tuple(P.normalise(c) for c in p.result), buf.getvalue(),
                tuple(tuple(c.hash_comments) for c in p.result))
    return (v, p.error, tuple(p.error_pos))


DEFS0 = None


def _pristine():
    global DEFS0
    DEFS0 = definitions_snapshot()          # before this process has parsed anything
    out = []
    for s in CORPUS:
        SC.RequireCommand.loaded_extensions = []
        out.append(outcome(Parser(), s))
    return out


EXPECTED = _pristine()


def parser_state_attrs():
    """attributes stored on self by Parser / Lexer methods (AST of the live source)"""
    src = open(SP.__file__, encoding="utf-8").read()
    tree = ast.parse(src)
    found = {"Parser": set(), "Lexer": set()}
    for node in tree.body:
        if isinstance(node, ast.ClassDef) and node.name in found:
            for sub in ast.walk(node):
                if isinstance(sub, ast.Attribute) and isinstance(sub.ctx, ast.Store) and \
                        isinstance(sub.value, ast.Name) and sub.value.id == "self":
                    name = sub.attr
                    if name.startswith("__") and not name.endswith("__"):
                        name = "_%s%s" % (node.name, name)
                    found[node.name].add(name)
    return found


STATE = parser_state_attrs()
KNOWN_PARSER = {"debug", "lexer", "result", "hash_comments", "_Parser__cstate", "_Parser__curcommand",
                "_Parser__curstringlist", "_Parser__expected", "_Parser__expected_brackets", "error",
                "error_pos"}
KNOWN_LEXER = {"definitions", "regexpString", "regexp", "wsregexp", "pos", "text"}


class Poison:
    """stands for 'whatever was there before' in an attribute the harness has no typed junk for:
    any use before the attribute is re-initialised raises and shows up as a difference"""

    def __getattr__(self, name):
        raise RuntimeError("stale state used: " + name)

    def __bool__(self):
        raise RuntimeError("stale state used")

    def __iter__(self):
        raise RuntimeError("stale state used")


def _havoc_body(info, s, brackets, expected, comments, strlist, junk, pos, exts):
    si = SLO + P.decode(s - SLO, SHI - SLO)
    script = CORPUS[si]
    p = Parser()
    # ---- arbitrary pre-state
    p.hash_comments = comments
    p._Parser__expected_brackets = brackets
    p._Parser__expected = expected
    p._Parser__curstringlist = strlist
    j = P.decode(junk, 4)
    p.result = [[], [SC.KeepCommand()], [SC.IfCommand()], []][j]
    p._Parser__cstate = [None, p._Parser__arguments, p._Parser__stringlist, p._Parser__argument][j]
    p._Parser__curcommand = [None, SC.KeepCommand(), SC.HeaderCommand(SC.IfCommand()), SC.IfCommand()][j]
    p.error = "line 7: stale"
    p.error_pos = (7, 7, 7)
    p.lexer.pos = pos
    p.lexer.text = b"stale text"
    for name in STATE["Parser"] - KNOWN_PARSER:
        setattr(p, name, Poison())
    for name in STATE["Lexer"] - KNOWN_LEXER:
        setattr(p.lexer, name, Poison())
    es = P.LazyExtSet().setup(dict(zip(P.ALL_EXT, exts)))
    SC.RequireCommand.loaded_extensions = es
    info["concrete"] = dict(s=si, brackets=[("x", b"y")], expected=("semicolon",), comments=[b"# z"],
                            strlist=["q"], junk=j, pos=3, e0=True, e1=False, e2=True, e3=False, e4=True,
                            e5=False, e6=True, e7=False, e8=True, e9=False, e10=True, e11=False, e12=True)
    # ---- the call under test
    before = notrace(definitions_snapshot)
    got = outcome(p, script)
    after = notrace(definitions_snapshot)
    want = EXPECTED[si]
    if after != DEFS0:
        before = DEFS0
        changed = sorted(k for k in before if before[k] != after.get(k))
        raise Violation("C13/parse-mutates-shared-definitions/%s" % (changed[0] if changed else "?"),
                        {"script": notrace(_txt, script), "changed": changed})
    info["show"] = {"script": notrace(_txt, script), "junk": j}
    info["steps"] = 1
    info["cls"] = "s%d" % si
    if got != want:
        raise Violation("C13/parser-depends-on-prior-state/%s" % _what(got, want),
                        {"script": notrace(_txt, script), "got": repr(got)[:600], "want": repr(want)[:600]})


def _what(got, want):
    if got[0] != want[0]:
        return "verdict"
    if want[0] is True:
        if got[1] != want[1]:
            return "tree"
        if got[2] != want[2]:
            return "serialisation"
        return "comments"
    if got[1] != want[1]:
        return "error-text"
    return "error-pos"


def havoc(s: int, brackets: List[Tuple[str, bytes]], expected: Optional[Tuple[str, ...]], comments: List[bytes],
          strlist: Optional[List[str]], junk: int, pos: int,
          e0: bool, e1: bool, e2: bool, e3: bool, e4: bool, e5: bool, e6: bool, e7: bool, e8: bool, e9: bool,
          e10: bool, e11: bool, e12: bool) -> bool:
    """
    pre: SLO <= s < SHI
    pre: len(brackets) <= 2 and len(comments) <= 2
    pre: expected is None or len(expected) <= 2
    pre: strlist is None or len(strlist) <= 2
    pre: 0 <= junk < 4 and 0 <= pos <= 10
    post: _
    """
    return run("havoc", _havoc_body, dict(s=s, brackets=brackets, expected=expected, comments=comments,
                                          strlist=strlist, junk=junk, pos=pos, exts=[e0, e1, e2, e3, e4, e5, e6, e7, e8, e9, e10, e11, e12]))


# ------------------------------------------------------------------ FiltersSet vs the global list
from harness import c06 as F6      # noqa: E402
from harness.c07 import ExtSet     # noqa: E402
from sievelib.factory import FiltersSet  # noqa: E402
try:
    from crosshair.tracers import NoTracing, is_tracing
except Exception:  # pragma: no cover
    NoTracing = None
    is_tracing = lambda: False  # noqa: E731

FCONDS = F6.CONDS + [
    ("Subject", ":regex", "a.*"), ("Subject", ":notregex", "a.*"), ("envelope", ":regex", ["From"], ["a"]),
    ("address", ":regex", "from", "a"), ("body", ":raw", ":regex", "a"),
    ("currentdate", ":zone", "+0100", ":value", "ge", "date", "2020-01-01"),
]
NFC = len(FCONDS)
NFA = len(F6.ACTS)


def _factory_outcome(ci, ai, extset):
    SC.RequireCommand.loaded_extensions = extset
    fs = FiltersSet("t")
    try:
        fs.addfilter("f", [FCONDS[ci]], [F6.ACTS[ai]])
        fs.disablefilter("f")
        fs.updatefilter("f", "g", [FCONDS[ci], FCONDS[0]], [F6.ACTS[ai]], "allof")
        return ("ok", str(fs), tuple(fs.requires))
    except Exception as e:
        return ("raises", type(e).__name__, str(e))


def _fhavoc_body(info, c, a, exts):
    ci = P.decode(c, NFC)
    ai = P.decode(a, NFA)
    want = notrace(_factory_outcome, ci, ai, [])
    es = ExtSet().setup(dict(zip(P.ALL_EXT, exts)))
    es.resume = True
    if is_tracing():
        with NoTracing():
            got = _factory_outcome(ci, ai, es)
    else:
        got = _factory_outcome(ci, ai, es)
    ans = dict(es.asked)
    conc = {"c": ci, "a": ai}
    for i, e in enumerate(P.ALL_EXT):
        conc["e%d" % i] = bool(ans.get(e, False))
    info["concrete"] = conc
    info["steps"] = 2 + len(es.asked)
    info["show"] = {"condition": repr(FCONDS[ci]), "action": repr(F6.ACTS[ai]), "asked": list(es.asked)}
    info["cls"] = "f%d/%d/%s" % (ci, ai, "".join("1" if v else "0" for _, v in es.asked))
    if got != want:
        raise Violation("C13/factory-depends-on-loaded-extensions/%s" % (want[0] + "->" + got[0]),
                        {"condition": repr(FCONDS[ci]), "action": repr(F6.ACTS[ai]), "loaded": ans,
                         "pristine": repr(want)[:500], "got": repr(got)[:500]})


def fhavoc(c: int, a: int, e0: bool, e1: bool, e2: bool, e3: bool, e4: bool, e5: bool, e6: bool, e7: bool, e8: bool,
           e9: bool, e10: bool, e11: bool, e12: bool) -> bool:
    """
    pre: 0 <= c < NFC and 0 <= a < NFA
    post: _
    """
    return run("fhavoc", _fhavoc_body, dict(c=c, a=a, exts=[e0, e1, e2, e3, e4, e5, e6, e7, e8, e9, e10, e11, e12]))



# ------------------------------------------------------------------ loading a parsed script into a set
LOADABLE = [i for i, e in enumerate(EXPECTED) if e[0] is True]
NLOAD = len(LOADABLE)


def _load_outcome(si, between):
    SC.RequireCommand.loaded_extensions = []
    p = Parser()
    p.parse(CORPUS[si])
    if between is not None:
        SC.RequireCommand.loaded_extensions = between  # what other parsers did in the meantime
    fs = FiltersSet("t")
    try:
        fs.from_parser_result(p)
        return ("ok", tuple(fs.requires), str(fs), tuple((f["name"], f["enabled"]) for f in fs.filters))
    except Exception as e:
        return ("raises", type(e).__name__, str(e))


def _fload_body(info, s, exts):
    si = LOADABLE[P.decode(s, NLOAD)]
    want = notrace(_load_outcome, si, None)        # nobody touched the global list between parse and load
    es = ExtSet().setup(dict(zip(P.ALL_EXT, exts)))
    es.resume = True
    # another parser ran in between: it left an arbitrary list behind (membership symbolic, and some content)
    es.extend(["x-left-behind", "envelope"] if bool(exts[0]) else [])
    if is_tracing():
        with NoTracing():
            got = _load_outcome(si, es)
    else:
        got = _load_outcome(si, es)
    conc = {"s": LOADABLE.index(si)}
    ans = dict(es.asked)
    for i, e in enumerate(P.ALL_EXT):
        conc["e%d" % i] = bool(ans.get(e, False))
    info["concrete"] = conc
    info["steps"] = 1 + len(es.asked)
    info["show"] = {"script": notrace(_txt, CORPUS[si])}
    info["cls"] = "load%d" % si
    if got != want:
        raise Violation("C13/from_parser_result-depends-on-later-parses/%s" % ("requires" if got[:2] != want[:2] else "text"),
                        {"script": notrace(_txt, CORPUS[si]), "pristine": repr(want)[:500], "got": repr(got)[:500]})


def fload(s: int, e0: bool, e1: bool, e2: bool, e3: bool, e4: bool, e5: bool, e6: bool, e7: bool, e8: bool, e9: bool,
          e10: bool, e11: bool, e12: bool) -> bool:
    """
    pre: 0 <= s < NLOAD
    post: _
    """
    return run("fload", _fload_body, dict(s=s, exts=[e0, e1, e2, e3, e4, e5, e6, e7, e8, e9, e10, e11, e12]))
