"""C06: every script the filter factory generates is valid and self-sufficient.
f1: structure -- condition kinds x action kinds x set operations, by symbolic index (benign values).
f2: injection -- one value slot holds a string built from symbolic code points; the rendered text
    must be the skeleton with exactly the RFC 5228 quoted form of the value in the slot."""
import io
import os

from engine.side import run, Violation, Skip, notrace
from harness import pcommon as P
from refs import ref_sieve
from sievelib.factory import FiltersSet
from sievelib.parser import Parser

CONDS = [
    ("Subject", ":is", "x"), ("Subject", ":contains", "x"), ("Subject", ":matches", "x*"),
    ("Subject", ":notis", "x"), ("Subject", ":notcontains", "x"), ("Subject", ":notmatches", "x*"),
    (["To", "Cc"], ":contains", ["a", "b"]), ("X-H", ":is", ["a", "b"]),
    ("exists", "A"), ("exists", "A", "B"), ("notexists", "A", "B"),
    ("size", ":over", "100k"), ("size", ":under", "2M"),
    ("envelope", ":is", ["From"], ["a"]), ("envelope", ":notcontains", ["From", "To"], ["a", "b"]),
    ("address", ":is", "from", "a@b"), ("address", ":notcontains", ["from", "to"], ["a", "b"]),
    ("body", ":raw", ":contains", "x"), ("body", ":text", ":notis", "a", "b"),
    ("currentdate", ":zone", "+0100", ":is", "date", "2019-02-26"),
    ("currentdate", ":zone", "+0100", ":notis", "date", "2019-02-26"),
    ("currentdate", ":zone", "+0100", ":value", "gt", "date", "2019-02-26"),
    ("true",), ("false",),
]
ACTS = [
    ("fileinto", "F"), ("fileinto", ":copy", "F"), ("fileinto", ":create", "F"), ("fileinto", ":copy", ":create", "F"),
    ("fileinto", ":flags", "\\Seen", "F"), ("fileinto", ":flags", ["\\Seen", "\\Flagged"], "F"),
    ("redirect", "u@example.org"), ("redirect", ":copy", "u@example.org"),
    ("reject", "no"), ("keep",), ("keep", ":flags", "\\Seen"), ("discard",), ("stop",),
    ("setflag", "\\Seen"), ("addflag", "\\Seen"), ("removeflag", "\\Seen"), ("addflag", ["\\Seen", "\\Flagged"]),
    ("vacation", "gone"), ("vacation", ":subject", "s", ":days", 3, "gone"), ("vacation", ":seconds", 30, "gone"),
    ("vacation", ":from", "a@b", ":addresses", ["a@b", "c@d"], ":handle", "h", ":mime", "gone"),
    ("vacation", ":days", 0, "gone"), ("vacation", ":seconds", 0, ":subject", "", "gone"),
]
NC = len(CONDS)
NA = len(ACTS)
C2 = [None, 0, 9, 13, 17]          # (indices into CONDS)          # optional second condition
A2 = [None, 0, 7, 12, 18]          # optional second action
OPS = ["none", "disable", "disable-enable", "update", "replace-self", "add-second", "add-second-disable-first",
       "move", "remove-second"]
NOPS = len(OPS)
CLO = int(os.environ.get("C06_CLO", "0"))
CHI = int(os.environ.get("C06_CHI", str(NC)))


def reconfigure():
    global CLO, CHI, SLOT, VLEN
    CLO = int(os.environ.get("C06_CLO", "0"))
    CHI = int(os.environ.get("C06_CHI", str(NC)))
    SLOT = int(os.environ.get("C06_SLOT", "0"))
    VLEN = int(os.environ.get("C06_VLEN", "1"))


def validate(text, label):
    """the three clauses of the statement on a concrete rendering"""
    p = Parser()
    try:
        ok = p.parse(text)
    except Exception as e:
        raise Violation("C06/parser-raises/%s" % type(e).__name__, {"text": text, "what": label})
    if ok is not True:
        raise Violation("C06/output-rejected/%s" % _reason(p.error), {"text": text, "error": p.error, "what": label})
    toks, lexerr = P.ref_tokens(text.encode("utf-8"))
    if lexerr is not None:
        raise Violation("C06/output-not-lexable", {"text": text, "what": label})
    res = ref_sieve.check(toks)
    if res.status != "accept":
        raise Violation("C06/not-valid/%s/%s" % (res.reason or res.status, res.ext or res.cmd),
                        {"text": text, "what": label, "ref": [res.status, res.reason, res.cmd, res.ext]})
    if res.taints:
        raise Violation("C06/not-strictly-valid/%s" % ",".join(res.taints), {"text": text, "what": label})
    # begins with a require naming every extension used anywhere (enabled or disabled filters)
    used = [e for e, _ in res.ext_uses]
    if used:
        first = res.tree[0] if res.tree else None
        if first is None or first.name != "require":
            raise Violation("C06/no-leading-require", {"text": text, "what": label})
        v = first.pos[0]
        named = [x.strip('"') for x in (v if isinstance(v, list) else [v])]
        missing = [e for e in used if e not in named]
        if missing:
            raise Violation("C06/require-misses/%s" % missing[0], {"text": text, "what": label})


def _reason(err):
    import re
    m = re.search(r"extension '([^']*)' not loaded", err)
    if m:
        return "extension-not-loaded/" + m.group(1)
    return "other"


def _call(label, fn, *a):
    try:
        return fn(*a)
    except Violation:
        raise
    except Exception as e:
        from engine.side import site_of
        raise Violation("C06/raises/%s@%s/%s" % (type(e).__name__, site_of(e), label),
                        {"call": label, "args": repr(a)[:400], "exc": repr(e)})


def _native_f1(c1, c2, a1, a2, mt, op):
    conds = [CONDS[c1]] + ([CONDS[C2[c2]]] if C2[c2] is not None else [])
    acts = [ACTS[a1]] + ([ACTS[A2[a2]]] if A2[a2] is not None else [])
    mtype = "allof" if mt else "anyof"
    label = "%s|%s|%s" % (conds, acts, OPS[op])
    fs = FiltersSet("t")
    _call("addfilter", fs.addfilter, "first", conds, acts, mtype)
    validate(str(fs), label)
    o = OPS[op]
    if o == "disable":
        fs.disablefilter("first")
    elif o == "disable-enable":
        fs.disablefilter("first")
        fs.enablefilter("first")
    elif o == "update":
        _call("updatefilter", fs.updatefilter, "first", "renamed", [CONDS[0]], [ACTS[9]], "anyof")
    elif o == "replace-self":
        fs.replacefilter("first", fs.getfilter("first"), "other", "descr")
    elif o in ("add-second", "add-second-disable-first", "move", "remove-second"):
        _call("addfilter", fs.addfilter, "second", [CONDS[13]], [ACTS[8]], "anyof")
        if o == "add-second-disable-first":
            fs.disablefilter("first")
        elif o == "move":
            fs.movefilter("second", "up")
        elif o == "remove-second":
            fs.removefilter("second")
    text = str(fs)
    validate(text, label)
    return text


def _f1_body(info, c1, c2, a1, a2, mt, op):
    k1 = CLO + P.decode(c1 - CLO, CHI - CLO)
    b1 = P.decode(a1, NA)
    k2 = P.decode(c2, len(C2))
    # one dimension is varied at a time around (condition, action): a second condition with
    # anyof/allof, or a second action, or a set-operation scenario
    b2 = P.decode(a2, len(A2)) if k2 == 0 else 0
    m = P.decode(mt, 2) if k2 != 0 else 0
    o = P.decode(op, NOPS) if (k2 == 0 and b2 == 0) else 0
    info["concrete"] = dict(c1=k1, c2=k2, a1=b1, a2=b2, mt=m, op=o)
    info["steps"] = 6
    info["show"] = notrace(_native_f1, k1, k2, b1, b2, m, o)
    info["cls"] = "%d/%d/%d/%d/%d/%d" % (k1, k2, b1, b2, m, o)


def f1(c1: int, c2: int, a1: int, a2: int, mt: int, op: int) -> bool:
    """
    pre: CLO <= c1 < CHI and 0 <= c2 < len(C2) and 0 <= a1 < NA and 0 <= a2 < len(A2) and 0 <= mt < 2 and 0 <= op < NOPS
    post: _
    """
    return run("f1", _f1_body, dict(c1=c1, c2=c2, a1=a1, a2=a2, mt=mt, op=op))


# ------------------------------------------------------------------ F2: injection
# slot -> (label, builder(v) -> (conditions, actions))
SLOTS = [
    ("header-name", lambda v: ([(v, ":is", "k")], [("keep",)])),
    ("header-key", lambda v: ([("Subject", ":contains", v)], [("keep",)])),
    ("header-key-list", lambda v: ([("Subject", ":contains", ["a", v])], [("keep",)])),
    ("header-name-list", lambda v: ([(["To", v], ":is", "k")], [("keep",)])),
    ("exists-name", lambda v: ([("exists", "A", v)], [("keep",)])),
    ("envelope-key", lambda v: ([("envelope", ":is", ["From"], [v])], [("keep",)])),
    ("address-key", lambda v: ([("address", ":is", "from", v)], [("keep",)])),
    ("address-key-list", lambda v: ([("address", ":is", "from", ["a", v])], [("keep",)])),
    ("body-key", lambda v: ([("body", ":raw", ":contains", v)], [("keep",)])),
    ("currentdate-key", lambda v: ([("currentdate", ":zone", "+0100", ":is", "date", v)], [("keep",)])),
    ("fileinto-folder", lambda v: ([("true",)], [("fileinto", v)])),
    ("redirect-address", lambda v: ([("true",)], [("redirect", v)])),
    ("reject-reason", lambda v: ([("true",)], [("reject", v)])),
    ("vacation-reason", lambda v: ([("true",)], [("vacation", ":subject", "s", v)])),
    ("vacation-subject", lambda v: ([("true",)], [("vacation", ":subject", v, "gone")])),
    ("vacation-address-list", lambda v: ([("true",)], [("vacation", ":addresses", ["a@b", v], "gone")])),
    ("flag", lambda v: ([("true",)], [("addflag", v)])),
    ("fileinto-flags-list", lambda v: ([("true",)], [("fileinto", ":flags", ["a", v], "F")])),
]
NSLOTS = len(SLOTS)
SLOT = int(os.environ.get("C06_SLOT", "0"))
VLEN = int(os.environ.get("C06_VLEN", "1"))
MARK = "QZQZQ"


def skeleton(slot):
    conds, acts = SLOTS[slot][1](MARK)
    fs = FiltersSet("t")
    fs.addfilter("f", conds, acts)
    text = str(fs)
    q = '"%s"' % MARK
    i = text.find(q)
    if i < 0 or text.find(q, i + 1) >= 0:
        raise RuntimeError("slot %s: marker not rendered exactly once as a quoted string" % SLOTS[slot][0])
    return text[:i], text[i + len(q):]


def rfc_quote(v):
    """RFC 5228 2.4.2 quoted-string for the value v"""
    out = '"'
    for ch in v:
        if ch == '"' or ch == "\\":
            out = out + "\\" + ch
        else:
            out = out + ch
    return out + '"'


class Buf:
    """pure-Python write target: the rendered text stays symbolic"""

    def __init__(self):
        self.parts = []

    def write(self, s):
        self.parts.append(s)

    def text(self):
        out = ""
        for p in self.parts:
            out = out + p
        return out


def _okcp(c):
    return 0 < c < 0x110000 and not (0xD800 <= c <= 0xDFFF)


def _f2_entry(info, c0, c1, c2):
    v = chr(c0)
    if VLEN >= 2:
        v = v + chr(c1)
    if VLEN >= 3:
        v = v + chr(c2)
    label, mk = SLOTS[SLOT]
    pre, post = notrace(skeleton, SLOT)
    conds, acts = mk(v)
    fs = FiltersSet("t")
    info["steps"] = VLEN
    info["cls"] = label
    try:
        fs.addfilter("f", conds, acts)
        buf = Buf()
        fs.tosieve(target=buf)
        text = buf.text()
    except Exception as e:
        from engine.side import site_of
        raise Violation("C06/injection/raises/%s@%s/%s" % (type(e).__name__, site_of(e), label),
                        lambda e=e: {"slot": label, "value": v, "exc": repr(e)})
    want = pre + rfc_quote(v) + post
    if text != want:
        special = _special(v)
        raise Violation("C06/injection/%s/%s" % (special, label),
                        lambda: {"slot": label, "value": v, "rendered": text, "expected": want})


def _special(v):
    """which kind of character broke the rendering (for a narrow signature)"""
    for ch in v:
        if ch == '"':
            return "unescaped-quote"
    for ch in v:
        if ch == "\\":
            return "unescaped-backslash"
    return "other"


def f2(c0: int, c1: int, c2: int) -> bool:
    """
    pre: _okcp(c0) and c0 != 34 and c0 != 39 and c0 != 58
    pre: _okcp(c1) if VLEN >= 2 else c1 == 0
    pre: _okcp(c2) if VLEN >= 3 else c2 == 0
    post: _
    """
    return run("f2", _f2_entry, dict(c0=c0, c1=c1, c2=c2))
