"""C18 harnesses: error positions."""
import os
from engine.side import run, Violation, Skip
from sievelib.parser import Lexer, Parser

MAXLEN = int(os.environ.get("C18_MAXLEN", "5"))


def _u1_body(info, text, pos):
    lx = Lexer(Parser.lrules)
    lx.text = text
    lx.pos = pos
    line = lx.curlineno()
    col = lx.curcolno()
    # reference: count by a plain loop
    rl, rc = 1, 1
    i = 0
    while i < pos:
        if text[i] == 10:
            rl += 1
            rc = 1
        else:
            rc += 1
        i += 1
    if line != rl:
        raise Violation("C18/arith/LINE", {"text": text, "pos": pos, "got": line, "want": rl})
    if col != rc:
        raise Violation("C18/arith/COLUMN", {"text": text, "pos": pos, "got": col, "want": rc})


def u1_arith(text: bytes, pos: int) -> bool:
    """
    pre: len(text) <= MAXLEN
    pre: 0 <= pos <= len(text)
    post: _
    """
    return run("u1_arith", _u1_body, dict(text=text, pos=pos))
