"""C18 harnesses: error positions."""
import os
from engine.side import run, Violation, Skip
from sievelib.parser import Lexer, Parser

MAXLEN = int(os.environ.get("C18_MAXLEN", "5"))


def _u1_body(info, text, pos):
    lx = Lexer(Parser.lrules)
    try:
        lx.text = text
        lx.pos = pos
        line = lx.curlineno()
        col = lx.curcolno()
    except Exception as e:
        # the lemma pokes the position arithmetic directly; a lexer that keeps its position differently is not
        # wrong for that: U2/U3 (through Parser.parse) carry the claim then
        raise Skip("position arithmetic not reachable this way: %s" % type(e).__name__)
    # reference: count by a plain loop
    rl, rc = 1, 1
    i = 0
    while i < pos:
        if text[i] == 10:
            rl += 1
            rc = 1
        else:
            rc += 1
        i += 1
    if line != rl:
        raise Violation("C18/arith/LINE", {"text": text, "pos": pos, "got": line, "want": rl})
    if col != rc:
        raise Violation("C18/arith/COLUMN", {"text": text, "pos": pos, "got": col, "want": rc})


def u1_arith(text: bytes, pos: int) -> bool:
    """
    pre: len(text) <= MAXLEN
    pre: 0 <= pos <= len(text)
    post: _
    """
    return run("u1_arith", _u1_body, dict(text=text, pos=pos))


# ------------------------------------------------------------------ U2: whole parser, templates
from engine.side import notrace
from harness import pcommon as P

PREFIXES = [
    b"",
    b'require ["fileinto", "copy"];\n',
    b"# comment \xc3\xa9\xc3\xa9 \xe2\x82\xac\n/* bracket\n comment */\nkeep;\n",
    b'require "reject";\nif header :is "Subject" "\xc3\xa9t\xc3\xa9" {\n    reject text:\nline \xe2\x82\xac\n.\n;\n}\n',
    b'if anyof (true,\n   false) {\n\tstop; # \xc3\xa9\n}\n',
    b'if size :over 1K { keep; }\nelsif exists "a" { discard; }\nelse { stop; }\n',
]
# (text before the offending token on its line, offending token, lexical?)
OFFENDERS = [
    (b"", b"!", True), (b"keep; ", b"\xc3\xa9x", True), (b"", b"@@", True),
    (b"", b"foo", False), (b"keep; ", b"bar_1", False),
    (b"", b"vacation", False), (b"", b"setflag", False), (b"if ", b"envelope", False),
    (b"keep ", b":flags", False), (b'if header ', b":regex", False), (b'if header ', b":count", False),
    (b"redirect ", b":foo", False), (b"if header ", b":over", False), (b"discard ", b":copy", False),
    (b"keep ", b'"a"', False), (b"stop ", b"12", False), (b"stop ", '"\u00fc\u20ac"'.encode("utf-8"), False), (b'redirect "a" ', b'"b"', False),
    (b'if exists "a" ', b'"b"', False), (b"discard ", b"3K", False),
    (b"", b"true", False), (b"", b"header", False), (b"if ", b"keep", False), (b"if not ", b"stop", False),
    (b"if anyof (true, ", b"discard", False),
]
# rejections of the "every other" kind: (text before, token at which the script becomes invalid); only
# "not before that token" and "independent of what follows" are asserted
OTHERS = [
    (b'require "imap4flags"; if hasflag ', b"{"), (b'require "imap4flags"; if hasflag :is ', b"{"),
 (b"if true ", b";"),
    (b"if header ", b"{"), (b"keep", b"}"), (b"if anyof (true ", b"{"), (b"if not ", b"{"), (b'if header [ "a" ', b"]]"),
    (b'require [ "fileinto" ', b";"), (b"if true { keep; } else ", b";"), (b"stop ", b"{"), (b"if anyof ( ", b")"),
]
SUFFIXES = [b"", b' "x";\nkeep;\n', b"\n}\n!!\n", b' :is "z" { stop; }']
NP = len(PREFIXES)
NO = len(OFFENDERS) + len(OTHERS)
U2_PREFIX = int(os.environ.get("U2_PREFIX", "0"))


def reconfigure():
    global U2_PREFIX, MAXLEN
    U2_PREFIX = int(os.environ.get("U2_PREFIX", "0"))
    MAXLEN = int(os.environ.get("C18_MAXLEN", "5"))


def _native_u2(pi, nl, sp, crlf, oi):
    eol = b"\r\n" if crlf else b"\n"
    src = PREFIXES[pi]
    if crlf and b"text:" in src:
        # sievelib's text: rule does not take CRLF line ends (known finding of C01): keep the
        # prefix valid for the parser under test
        src = src.replace(b"reject text:\nline \xe2\x82\xac\n.\n;", b'reject "line \xe2\x82\xac";')
    prefix = src.replace(b"\n", eol)
    weak = oi >= len(OFFENDERS)
    if weak:
        pre, tok = OTHERS[oi - len(OFFENDERS)]
        lexical = False
    else:
        pre, tok, lexical = OFFENDERS[oi]
    head = prefix + eol * nl + b" " * sp + pre
    want_line = 1 + head.count(b"\n")
    want_col = sp + len(pre) + 1
    seen = None
    for sfx in SUFFIXES:
        text = head + tok + sfx.replace(b"\n", eol)
        p = Parser()
        try:
            v = p.parse(text)
        except Exception as e:
            raise Violation("C18/raises/%s" % type(e).__name__, {"script": text.decode("utf-8", "replace")})
        shown = text.decode("utf-8", "backslashreplace")
        if v is not False:
            raise Violation("C18/offender-accepted/%s" % tok.decode("utf-8", "replace"), {"script": shown})
        m = re.match(r"line (\d+): ", p.error)
        line = int(m.group(1)) if m else None
        ep = p.error_pos
        kind = "lexical" if lexical else tok.decode("ascii", "backslashreplace")
        if weak:
            kind = "other/" + (pre + tok).decode("ascii").strip()
            if line != ep[0]:
                raise Violation("C18/line-vs-error_pos/%s" % kind, {"script": shown, "error": p.error, "error_pos": list(ep)})
            if (ep[0], ep[1]) < (want_line, want_col):
                raise Violation("C18/position-before-offender/%s" % kind,
                                {"script": shown, "error": p.error, "error_pos": list(ep), "offender_at": [want_line, want_col]})
            cur = (p.error, tuple(ep[:2]))
            if seen is not None and cur != seen:
                raise Violation("C18/depends-on-suffix/%s" % kind, {"script": shown, "a": repr(seen), "b": repr(cur)})
            seen = cur
            continue
        if line != want_line or ep[0] != want_line:
            raise Violation("C18/line/%s" % kind, {"script": shown, "error": p.error, "error_pos": list(ep),
                                                   "want_line": want_line})
        if ep[1] != want_col:
            raise Violation("C18/column/%s" % kind, {"script": shown, "error_pos": list(ep), "want_col": want_col})
        if not lexical and ep[2] != len(tok):
            raise Violation("C18/length/%s" % kind, {"script": shown, "error_pos": list(ep), "want_len": len(tok)})
        cur = (p.error if not lexical else None, tuple(ep[:2]))
        if seen is not None and cur != seen:
            raise Violation("C18/depends-on-suffix/%s" % kind, {"script": shown, "a": repr(seen), "b": repr(cur)})
        seen = cur
    return (head + tok).decode("utf-8", "backslashreplace")


import re  # noqa: E402


def _u2_body(info, nl, sp, crlf, tok):
    cn = P.decode(nl, 4)
    cs = P.decode(sp, 4)
    cc = P.decode(crlf, 2)
    ct = P.decode(tok, NO)
    info["concrete"] = dict(nl=cn, sp=cs, crlf=cc, tok=ct)
    info["steps"] = 4
    info["show"] = notrace(_native_u2, U2_PREFIX, cn, cs, cc, ct)
    info["cls"] = "u2/%d/%d/%d" % (U2_PREFIX, ct, cc)


def u2(nl: int, sp: int, crlf: int, tok: int) -> bool:
    """
    pre: 0 <= nl < 4 and 0 <= sp < 4 and 0 <= crlf < 2 and 0 <= tok < NO
    post: _
    """
    return run("u2", _u2_body, dict(nl=nl, sp=sp, crlf=crlf, tok=tok))
