"""C09: operation results mirror the server's status reply.
The reply line is assembled by the reference encoder (refs/ref_ms.status_line) from a status, a
response code from a pool, a text form and a text of symbolic ASCII bytes; it is read by the real
client code (__read_line, __read_response, __parse_error, the operation's own mapping)."""
import os

from engine.side import run, Violation, Skip, notrace
from harness import pcommon as P
from harness.mcommon import FakeSock, make_client, buffer_of, Hang
from refs import ref_ms as R
from sievelib import managesieve as MS

OPS = [
    ("deletescript", lambda c: c.deletescript("s"), b"", True),
    ("putscript", lambda c: c.putscript("s", "keep;"), b"", True),
    ("setactive", lambda c: c.setactive("s"), b"", True),
    ("havespace", lambda c: c.havespace("s", 3), b"", True),
    ("checkscript", lambda c: c.checkscript("keep;"), b"", True),
    ("renamescript", lambda c: c.renamescript("a", "b"), b"", True),
    ("getscript", lambda c: c.getscript("s"), b"{5}\r\nkeep;\r\n", "keep;"),
    ("listscripts", lambda c: c.listscripts(), b'"a"\r\n"b" ACTIVE\r\n', ("b", ["a"])),
    ("capability", lambda c: c.capability(), b'"SIEVE" "x"\r\n', b'"SIEVE" "x"\r\n'),
]
NOPS = len(OPS)
CODES = [None, b"ACTIVE", b"QUOTA/MAXSIZE", b"NONEXISTENT", b'TAG "x y"', b'REFERRAL "sieve://h/a"', b"WARNINGS", b'TAG "p)q"']
NCODES = len(CODES)
STATI = [b"OK", b"NO", b"BYE"]
FORMS = ["absent", "quoted", "literal"]
OPI = int(os.environ.get("C09_OP", "0"))
TLEN = int(os.environ.get("C09_TLEN", "1"))
SLO = int(os.environ.get("C09_SLO", "0"))
SHI = int(os.environ.get("C09_SHI", "3"))


def reconfigure():
    global OPI, TLEN, SLO, SHI
    OPI = int(os.environ.get("C09_OP", "0"))
    TLEN = int(os.environ.get("C09_TLEN", "1"))
    SLO = int(os.environ.get("C09_SLO", "0"))
    SHI = int(os.environ.get("C09_SHI", "3"))


def _body(info, st, code, form, text):
    si, ci, fi = st, code, form
    label, call, data, okval = OPS[OPI]
    status = STATI[si]
    if FORMS[fi] == "absent":
        txt = None
    else:
        txt = text
    # replies with data lines only make sense for OK
    lead = data if status == b"OK" else b""
    reply = lead + R.status_line(status, CODES[ci], txt, FORMS[fi] if fi else "quoted")
    sentinel = b'OK "sentinel"\r\n'
    sock = FakeSock([reply + sentinel], eof="timeout")
    c = make_client(sock, version=True)
    c.errcode, c.errmsg = b"stale", b"stale"
    info["steps"] = 4
    info["cls"] = "%s/%s/%d/%s" % (label, status.decode(), ci, FORMS[fi])

    def detail(extra):
        d = {"operation": label, "reply": reply}
        d.update(extra)
        return d
    try:
        got = ("ret", call(c))
    except MS.Error as e:
        got = ("Error", str(e))
    except Hang:
        got = ("Hang",)
    except Exception as e:
        from engine.side import site_of
        raise Violation("C09/%s/raises/%s@%s" % (status.decode(), type(e).__name__, site_of(e)),
                        lambda e=e: detail({"exc": repr(e)}))
    if status == b"BYE":
        if got[0] != "Error":
            raise Violation("C09/BYE/no-Error/%s" % label, lambda: detail({"got": repr(got)}))
        return
    if got[0] != "ret":
        raise Violation("C09/%s/raised-%s/%s/%s" % (status.decode(), got[0], FORMS[fi], "code" if CODES[ci] else "nocode"),
                        lambda: detail({"got": repr(got)}))
    if status == b"OK":
        if got[1] != okval:
            raise Violation("C09/OK/not-success/%s" % label, lambda: detail({"got": repr(got[1]), "want": repr(okval)}))
    else:
        if got[1] is not False and got[1] is not None:
            raise Violation("C09/NO/not-failure/%s" % label, lambda: detail({"got": repr(got[1])}))
        wcode = CODES[ci] if CODES[ci] is not None else b""
        wtext = txt if txt is not None else b""
        if c.errcode != wcode:
            raise Violation("C09/NO/errcode/%s" % ("param" if b" " in wcode else "plain"),
                            lambda: detail({"errcode": c.errcode, "want": wcode}))
        if c.errmsg != wtext:
            raise Violation("C09/NO/errmsg/%s" % FORMS[fi], lambda: detail({"errmsg": c.errmsg, "want": wtext}))
    # the reply was consumed exactly: the next command reads its own reply
    try:
        nxt = c.deletescript("z")
    except Exception as e:
        raise Violation("C09/%s/next-operation-raises" % status.decode(), lambda e=e: detail({"exc": repr(e)}))
    if nxt is not True or buffer_of(c) + sock.unread() != b"":
        raise Violation("C09/%s/out-of-step-afterwards" % status.decode(),
                        lambda: detail({"next": repr(nxt), "leftover": buffer_of(c) + sock.unread()}))


TEXTS = [b"x", b"", b"two words", b'q"uote', b"back\\slash", b'ends with \\"', b"(paren) {3}", b"OK NO BYE", b"\xc3\xa9t\xc3\xa9",
         b"a\r\nb", b'"', b"\\"]
NTEXTS = len(TEXTS)
SYM_CODE = int(os.environ.get("C09_CODE", "0"))
SYM_FORM = int(os.environ.get("C09_FORM", "1"))
_reconf0 = reconfigure


def reconfigure():  # noqa: F811
    global SYM_CODE, SYM_FORM
    _reconf0()
    SYM_CODE = int(os.environ.get("C09_CODE", "0"))
    SYM_FORM = int(os.environ.get("C09_FORM", "1"))


def _pool_body(info, st, code, form, ti):
    si = P.decode(st, 3)
    ci = P.decode(code, NCODES)
    fi = P.decode(form, 3)
    k = P.decode(ti, NTEXTS) if fi else 0
    info["concrete"] = dict(st=si, code=ci, form=fi, ti=k)
    info["show"] = {"operation": OPS[OPI][0], "status": STATI[si].decode(), "code": repr(CODES[ci]), "form": FORMS[fi],
                    "text": repr(TEXTS[k])}
    sub = {}
    notrace(_body, sub, si, ci, fi, TEXTS[k])
    info["steps"] = 4
    info["cls"] = sub["cls"] + "/%d" % k


def c09_pool(st: int, code: int, form: int, ti: int) -> bool:
    """
    pre: 0 <= st < 3 and 0 <= code < NCODES and 0 <= form < 3 and 0 <= ti < NTEXTS
    post: _
    """
    return run("c09_pool", _pool_body, dict(st=st, code=code, form=form, ti=ti))


def _sym_body(info, text):
    _body(info, 1, SYM_CODE, SYM_FORM, text)


def c09_sym(text: bytes) -> bool:
    """
    pre: len(text) == TLEN and all(32 <= x < 127 or x == 9 for x in text)
    post: _
    """
    return run("c09_sym", _sym_body, dict(text=text))
