"""Shared devices for the parser harnesses: vocabulary, LazyScript, LazyExtSet, tree normaliser."""
import os

from engine.side import notrace
try:
    from crosshair.tracers import NoTracing, ResumedTracing, is_tracing
except Exception:  # pragma: no cover
    NoTracing = ResumedTracing = None
    is_tracing = lambda: False  # noqa: E731
from refs import ref_lex, ref_sieve
from sievelib import commands as SC
from sievelib.parser import Parser

ALL_EXT = ["fileinto", "reject", "envelope", "body", "copy", "mailbox", "imap4flags",
           "vacation", "vacation-seconds", "relational", "regex", "date", "variables"]
REQ_ALL = b"require [" + b", ".join(b'"%s"' % e.encode() for e in ALL_EXT) + b"];\n"

PUNCT = [b"[", b"]", b"(", b")", b"{", b"}", b";", b","]
FROZEN_COMMANDS = sorted(ref_sieve.CMDS)
FROZEN_TAGS = sorted({t for c in ref_sieve.CMDS.values() for t in c["tags"]})


def module_commands():
    """Command identifiers the module under test knows (its namespace, on this run)."""
    out = []
    for n, v in vars(SC).items():
        if n.endswith("Command") and isinstance(v, type) and n != "Command":
            out.append(n[:-7].lower())
    return sorted(set(out))


def module_tags():
    out = set()
    for n, v in vars(SC).items():
        if n.endswith("Command") and isinstance(v, type):
            for a in getattr(v, "args_definition", None) or []:
                if "tag" in a.get("type", []):
                    out.update(a.get("values", []))
                    out.update(a.get("extension_values", {}).keys())
    return sorted(out)


def build_vocab(kind):
    if kind == "reduced":
        words = ["if", "elsif", "else", "not", "anyof", "true", "header", "keep", "stop",
                 "reject", "require", "hasflag"]
        return PUNCT + [b'"a"', b"1"] + [w.encode() for w in words] + [b":is", b":foo"]
    cmds = sorted(set(FROZEN_COMMANDS) | set(module_commands()))
    tags = sorted(set(FROZEN_TAGS) | set(module_tags()))
    v = list(PUNCT)
    v += [b'"a"', b'"i;octet"', b'"gt"', b'"a\\"b"', b'"c\r\nd"']
    v += [b"text:\nx\n.", b"text:\r\nx\r\n."]
    v += [b"1", b"2K"]
    v += [c.encode() for c in cmds]
    v += [b"IF", b"Keep", b"foo", b"command", b"unknown", b"bad"]
    v += [t.encode() for t in tags]
    v += [b":IS", b":COUNT", b":foo"]
    v += [b"# c", b"/* c */", b"!"]
    return v


VOCABS = {"full": build_vocab("full"), "reduced": build_vocab("reduced")}

# concrete context prefixes: each puts the parser into one of its distinct situations
CONTEXTS = [
    REQ_ALL,
    REQ_ALL + b"if true {\n",
    REQ_ALL + b"if true { if false {\n",
    REQ_ALL + b"if true { keep; }\n",
    REQ_ALL + b"if true { keep; } elsif false { stop; }\n",
    REQ_ALL + b"if anyof (\n",
    REQ_ALL + b"if anyof ( true\n",
    REQ_ALL + b"if not\n",
    REQ_ALL + b'if header [ "a"\n',
    REQ_ALL + b'fileinto "a"\n',
    REQ_ALL + b"if header :comparator\n",
    REQ_ALL + b'if hasflag "a"\n',
    REQ_ALL + b"keep\n",
    REQ_ALL + b'if header :count "gt"\n',
]


class Hang(Exception):
    """The lexer was asked for input again and again without advancing."""


def decode(t, n):
    """Concrete index in [0, n) of the symbolic int t by a balanced comparison tree."""
    lo, hi = 0, n
    while hi - lo > 1:
        mid = (lo + hi) // 2
        if t < mid:
            hi = mid
        else:
            lo = mid
    return lo


class LazyScript(bytearray):
    """Script whose tokens are materialised when the real lexer reaches the end of what exists.
    tail: bytes appended once, after the last symbolic token or as soon as index 0 (the
    terminator entry of an argument vocabulary) is chosen."""

    def setup(self, lexer, syms, vocab, sep=b"\n", tail=None):
        self.lexer = lexer
        self.syms = syms
        self.vocab = vocab
        self.sep = sep
        self.tail = tail
        self.k = 0
        self.mat = []
        self.calls = 0
        self.fuel = 60 + 12 * (len(syms) + bytearray.__len__(self) // 2)
        self.resume = False
        self.preload = None
        return self

    def _decode(self, sym, n):
        # the only place where a symbolic value is inspected: the solver decides which token
        # comes next; everything sievelib sees is concrete on the path
        if self.resume:
            with ResumedTracing():
                return decode(sym, n)
        return decode(sym, n)

    def __len__(self):
        n = bytearray.__len__(self)
        self.calls += 1
        if self.calls > self.fuel:
            raise Hang()
        if self.preload is not None:
            # first call = Lexer.scan's loop test, right after the parser's own reset:
            # "the script began with require [<preload>];"
            SC.RequireCommand.loaded_extensions = self.preload
            self.preload = None
        if getattr(self.lexer, "pos", 0) >= n:
            if self.k < len(self.syms):
                idx = self._decode(self.syms[self.k], len(self.vocab))
                self.k += 1
                self.mat.append(idx)
                if self.tail is not None and idx == 0:
                    self.k = len(self.syms)
                    self.extend(self.tail)
                    self.tail = None
                else:
                    self.extend(self.vocab[idx] + self.sep)
            elif self.tail is not None:
                self.extend(self.tail)
                self.tail = None
            n = bytearray.__len__(self)
        return n


def lazy_parse(prefix, syms, vocab, parser=None, sep=b"\n", tail=None, preload=None):
    """Run the real Parser.parse on prefix + lazily chosen tokens.
    Returns (outcome, parser, materialised indices, rendered bytes); outcome is True, False,
    or an exception instance that escaped parse.
    No symbolic value ever reaches sievelib's code here (the token choice is decoded to a
    concrete index inside LazyScript), so the parser itself runs with CrossHair's opcode
    interception switched off and tracing is resumed only for the decoding comparisons."""
    if is_tracing():
        with NoTracing():
            p = parser or Parser()
            script = LazyScript(prefix).setup(p.lexer, syms, vocab, sep, tail)
            script.preload = preload
            script.resume = True
            out = _parse(p, script)
            rendered = bytes(bytearray(script))
    else:
        p = parser or Parser()
        script = LazyScript(prefix).setup(p.lexer, syms, vocab, sep, tail)
        script.preload = preload
        out = _parse(p, script)
        rendered = bytes(bytearray(script))
    p.lazy_all_read = script.k >= len(syms) and script.tail is None
    return out, p, script.mat, rendered


def _parse(p, script):
    try:
        return p.parse(script)
    except Exception as e:  # CrossHair's own control flow uses BaseException
        return e


def ref_tokens(data):
    """R2 tokens without comments; ('lexerror', offset) on failure."""
    try:
        return ref_lex.tokenize(data), None
    except ref_lex.LexError as e:
        return None, e


# ---------------------------------------------------------------- tree normalisation
def normalise(cmd):
    """sievelib Command -> (name, tags, positional, tests, children), via public attributes."""
    tags = {}
    pos = []
    tests = []
    for ad in cmd.args_definition:
        nm = ad["name"]
        if nm not in cmd.arguments:
            continue
        val = cmd.arguments[nm]
        typ = ad["type"]
        if "tag" in typ:
            tags[str(val).lower()] = _val(cmd.extra_arguments.get(nm))
            continue
        if typ == ["testlist"]:
            tests.extend(normalise(t) for t in val)
            continue
        if isinstance(val, SC.Command):
            tests.append(normalise(val))
            continue
        pos.append(_val(val))
    # arguments recorded under names that are not in the definition would be invisible above
    extra = [k for k in cmd.arguments if k not in [a["name"] for a in cmd.args_definition]]
    if extra:
        pos.append(("UNDEFINED-ARGUMENT-NAMES", tuple(extra)))
    return (cmd.name,
            tuple(sorted(tags.items(), key=lambda kv: kv[0])),
            tuple(pos),
            tuple(tests),
            tuple(normalise(c) for c in cmd.children))


def _val(v):
    if isinstance(v, list):
        return tuple(v)
    return v


def ref_tree(nodes):
    return tuple(n.as_tuple() for n in nodes)


def count_nodes(t):
    """(#commands+tests, #values) of a normalised tree tuple."""
    name, tags, pos, tests, children = t
    nv = len(pos) + sum(1 for _, v in tags if v is not None)
    nc = 1
    for s in tests + children:
        a, b = count_nodes(s)
        nc += a
        nv += b
    return nc, nv


class LazyExtSet(list):
    """RequireCommand.loaded_extensions replaced by 'an arbitrary set': membership of each name is
    a symbolic boolean that is only forced when the code under test asks."""

    def setup(self, bools):
        self.bools = bools       # dict name -> symbolic bool
        self.asked = []
        self.resume = False
        return self

    def __contains__(self, name):
        if list.__contains__(self, name):
            return True
        if name in self.bools:
            v = bool(self.bools[name])
            self.asked.append((name, v))
            return v
        return list.__contains__(self, name)


# ---------------------------------------------------------------- per-command argument spaces (T2)
def t2_commands():
    return sorted(set(FROZEN_COMMANDS) | set(module_commands()))


def _module_cmd_tags(name):
    cls = vars(SC).get(name.capitalize() + "Command")
    out = set()
    for a in getattr(cls, "args_definition", None) or []:
        if "tag" in a.get("type", []):
            out.update(a.get("values", []))
            out.update(a.get("extension_values", {}).keys())
    return out


def t2_space(name):
    """(prefix, vocabulary, tail) for command `name`; vocabulary[0] is the terminator."""
    spec = ref_sieve.CMDS.get(name)
    tags = set(spec["tags"]) if spec else set()
    tags |= _module_cmd_tags(name)
    role = spec["role"] if spec else "command"
    cls = vars(SC).get(name.capitalize() + "Command")
    if spec is None and cls is not None and getattr(cls, "_type", "") == "test":
        role = "test"
    blocky = name in ("if", "elsif", "else")
    tail = b"{ keep; }\n" if (role == "test" or blocky) else b";\n"
    prefix = REQ_ALL
    if name in ("elsif", "else"):
        prefix += b"if true { keep; }\n"
    if role == "test":
        prefix += b"if "
    prefix += name.encode() + b"\n"
    v = [tail.strip()]
    v += [t.encode() for t in sorted(tags)]
    v.append(b":foo")
    withparam = sorted(t for t in tags if spec and t in spec["tags"] and spec["tags"][t][1])
    if withparam:
        v += [t.upper().encode() for t in withparam]
    elif tags:
        v.append(sorted(tags)[0].upper().encode())
    v += [b'"a"', b'["a", "b"]', b"1", b"text:\nx\n.", b"true", b'"c\r\nd"']
    if ":count" in tags:
        v.append(b'"gt"')
    if ":comparator" in tags:
        v.append(b'"i;octet"')
    return prefix, v, tail
