from props._parser_plans import *


def plan(tier, seed):
    q = tier == "quick"
    conds = []
    if q:
        conds += t2_conds("c03", 3, timeout=280, split=3)
        conds += t1_conds("c03", "full", 2, 8, timeout=200)
        conds += t1_conds("c03", "reduced", 4, 6, timeout=240)
        bounds = {"T2": "every command, K=3 argument tokens", "T1": "full vocabulary N=2; reduced N=4"}
    else:
        conds += t2_conds("c03", 4, timeout=2400, split=6)
        conds += t1_conds("c03", "full", 3, 44, timeout=1500)
        conds += t1_conds("c03", "reduced", 6, 26, timeout=2400)
        for ctx in range(1, len(P.CONTEXTS)):
            conds += t1_conds("c03", "full", 2, 4, ctx=ctx, timeout=600)
        bounds = {"T2": "every command, K=4", "T1": "full N=3; reduced N=6; contexts x full N=2"}
    conds += t4_conds("c03", timeout=280 if q else 1500, quick=q)
    bounds["T4"] = T4_BOUND
    conds += twins("c03")
    meta = dict(functions=PARSER_FUNCS + ["sievelib.commands.Command.walk (via arguments/extra_arguments/children)"],
                bounds=bounds, outside=["scripts beyond the token bounds", "inputs that fill a tag slot twice"],
                assumptions=COMMON_ASSUME + ["tree of accepted input compared with R1's tree built from R2's tokens"],
                stubs=["LazyScript(bytearray) supplies the script"])
    return dict(conds=conds, meta=meta)
