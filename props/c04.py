from props._parser_plans import *


def plan(tier, seed):
    q = tier == "quick"
    conds = []
    if q:
        conds += t2_conds("c04", 3, timeout=280)
        conds += t1_conds("c04", "reduced", 4, 6, timeout=240)
        bounds = {"S1": "every command K=3 argument tokens; reduced vocabulary N=4"}
    else:
        conds += t2_conds("c04", 4, timeout=2400, split=6)
        conds += t1_conds("c04", "full", 3, 44, timeout=1500)
        conds += t1_conds("c04", "reduced", 6, 26, timeout=2400)
        bounds = {"S1": "every command K=4; full vocabulary N=3; reduced N=6"}
    conds += twins("c04")
    meta = dict(functions=PARSER_FUNCS + ["sievelib.commands.Command.tosieve"],
                bounds=bounds, outside=["values longer than the S2 bound", "scripts beyond the token bounds"],
                assumptions=COMMON_ASSUME, stubs=["LazyScript(bytearray) supplies the script"])
    return dict(conds=conds, meta=meta)
