from props._parser_plans import *


def plan(tier, seed):
    q = tier == "quick"
    conds = []
    if q:
        conds += t2_conds("c04", 3, timeout=280, split=3)
        conds += t1_conds("c04", "reduced", 4, 6, timeout=240)
        bounds = {"S1": "every command K=3 argument tokens; reduced vocabulary N=4"}
    else:
        conds += t2_conds("c04", 4, timeout=2400, split=6)
        conds += t1_conds("c04", "full", 3, 44, timeout=1500)
        conds += t1_conds("c04", "reduced", 6, 26, timeout=2400)
        bounds = {"S1": "every command K=4; full vocabulary N=3; reduced N=6"}
    from harness import c04 as V
    for slot in range(V.NSLOTS):
        for np_ in ((1, 2) if q else (1, 2, 3)):
            conds.append(Cond("s2-slot%d-pieces%d" % (slot, np_), "harness/c04.py", "s2",
                              env={"C04_SLOT": slot, "C04_NPIECES": np_}, timeout=280 if q else 3000))
    conds.append(Cond("s2-vacuity", "harness/c04.py", "s2", env={"C04_SLOT": 1, "C04_NPIECES": 1}, timeout=90, vacuity=True))
    bounds["S2"] = ("raw string token of 1-%d symbolic pieces (an arbitrary code point, or an escape pair) as string argument, list "
                    "element, tag parameter list element, at nesting depth 0-2, and a text: block body of 1-%d arbitrary characters"
                    % ((2, 2) if q else (3, 3)))
    conds += t4_conds("c04", timeout=280 if q else 1500, quick=q)
    bounds["T4"] = T4_BOUND
    conds += twins("c04")
    meta = dict(functions=PARSER_FUNCS + ["sievelib.commands.Command.tosieve"],
                bounds=bounds, outside=["values longer than the S2 bound", "scripts beyond the token bounds"],
                assumptions=COMMON_ASSUME, stubs=["LazyScript(bytearray) supplies the script"])
    return dict(conds=conds, meta=meta)
