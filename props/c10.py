import time
from engine.xh import Cond
from harness import c10 as H

F = "harness/c10.py"
OPS = ["havespace", "listscripts", "getscript", "putscript", "checkscript", "deletescript", "renamescript", "setactive"]


def plan(tier, seed):
    q = tier == "quick"
    conds = []
    t0 = time.time()
    bad = H.unguarded_methods()
    obligations = [dict(name="A0: every Client method that sends a script-management verb carries @authentication_required "
                             "(AST of managesieve.py)", status="discharged" if not bad else "refuted",
                        seconds=time.time() - t0, detail={"unguarded": bad}, sig="C10/A0/unguarded-method", witness=bad)]
    base = {"C10_SASL": "0,1,5,3", "C10_MECHS": "0,1,4", "C10_CRED": 0}

    def shape(name, sh, extra=None, timeout=280):
        env = dict(base)
        env["C10_SHAPE"] = sh
        env.update(extra or {})
        conds.append(Cond(name, F, "hist", env=env, timeout=timeout if q else 1800))

    for op in OPS:
        shape("before-connect-%s" % op, op)
    shape("connect-then-deletescript", "connect*,deletescript")
    shape("connect-then-renamescript", "connect*,renamescript")
    shape("connect-then-all-ops", "connect*,havespace,listscripts,getscript,putscript,checkscript,setactive",
          {"C10_SASL": "0,5", "C10_MECHS": "0,4"})
    shape("tls-then-deletescript", "connect-tls*,deletescript",
          {"C10_SASL": "0,5,1" if q else "0,1,5,3", "C10_FREEZE": "okform" if q else ""})
    shape("login-then-connect-then-putscript", "connect!,connect*,putscript")
    shape("login-then-tls-then-listscripts", "connect!,connect-tls*,listscripts",
          {"C10_SASL": "0,5", "C10_MECHS": "0,4", "C10_FREEZE": "okform"})
    if not q:
        # partitioned on the first two server choices (connection refused? / greeting behaviour)
        for x0 in (0, 1):
            for x1 in range(5):
                part = {"C10_X0LO": x0, "C10_X0HI": x0 + 1, "C10_X1LO": x1, "C10_X1HI": x1 + 1}
                shape("connect-connect-getscript-%d%d" % (x0, x1), "connect*,connect*,getscript",
                      dict(part, C10_SASL="0,5", C10_MECHS="0,4", C10_FREEZE="okform"))
                shape("tls-connect-deletescript-%d%d" % (x0, x1), "connect-tls*,connect*,deletescript",
                      dict(part, C10_SASL="0,5", C10_MECHS="0", C10_FREEZE="okform"))
        shape("tls-tls-deletescript", "connect-tls!,connect-tls*,deletescript", {"C10_SASL": "0,1,5", "C10_MECHS": "0,1,4"})
    conds.append(Cond("c10-vacuity", F, "hist", env=dict(base, C10_SHAPE="connect*,deletescript"), timeout=90, vacuity=True))
    meta = dict(functions=["sievelib.managesieve.Client.connect", "__get_capabilities", "__starttls", "__authenticate",
                           "_plain_authentication/_login_authentication/_oauthbearer_authentication", "authentication_required",
                           "every script-management method"],
                bounds={"histories": "%d call shapes: every script operation before any connect; connect / connect with STARTTLS "
                                     "followed by operations; a successful login followed by a second connect (plain or TLS) and an "
                                     "operation%s" % (len(conds) - 1, "" if q else "; two explored connects in a row"),
                        "server": "at each handshake step (greeting, STARTTLS reply, greeting after TLS, AUTHENTICATE reply): OK (quoted text, or a response code with a literal text that itself looks like a status line) / NO / "
                                  "BYE / silence / malformed line; connection refused; TLS handshake ok / SSLError; STARTTLS offered or "
                                  "not; SASL lists before and after TLS chosen independently from {PLAIN, LOGIN PLAIN, capability "
                                  "missing, only unimplemented mechanisms}; authmech in {None, PLAIN, X-UNKNOWN}"},
                outside=["reply shapes of the operations themselves (C09)", "DIGEST-MD5 (C16)", "histories longer than the shapes"],
                assumptions=["socket.create_connection / ssl.create_default_context are replaced inside sievelib.managesieve's namespace "
                             "by stubs handing out fake sockets tagged plain/TLS; the monitor works on the ordered log of writes",
                             "a call marked '!' in a shape runs against an all-OK server (plain-text PLAIN login succeeds)"],
                stubs=["StubSocketModule", "StubSSLModule", "WSock (scripted handshake server)"])
    return dict(conds=conds, meta=meta, obligations=obligations)
