from engine.xh import Cond
from harness import c10 as H

F = "harness/c10.py"


def plan(tier, seed):
    q = tier == "quick"
    conds = []
    for cred in range(H.NCREDS):
        conds.append(Cond("select-and-payload-cred%d" % cred, F, "hist",
                          env={"C10_SHAPE": "connect*", "C10_FREEZE": "refuse,greet,offer,okform", "C10_NSASL": 9, "C10_CRED": cred},
                          timeout=280 if q else 1500))
    conds.append(Cond("select-after-tls", F, "hist",
                      env={"C10_SHAPE": "connect-tls*", "C10_FREEZE": "refuse,greet,offer,okform,starttls,wrap,greet2", "C10_NSASL": 9,
                           "C10_SASL": "0,2,5,8" if q else "0,1,2,3,4,5,6,7,8", "C10_MECHS": "0,1,3,4" if q else "0,1,2,3,4,5,6",
                           "C10_CRED": 1}, timeout=280 if q else 3000))
    conds.append(Cond("c16-vacuity", F, "hist", env={"C10_SHAPE": "connect*", "C10_FREEZE": "refuse,greet,offer,okform", "C10_CRED": 0},
                      timeout=90, vacuity=True))
    meta = dict(functions=["sievelib.managesieve.Client.__authenticate", "get_sasl_mechanisms", "_plain_authentication",
                           "_login_authentication", "_oauthbearer_authentication", "_digest_md5_authentication",
                           "sievelib.digest_md5.DigestMD5", "connect", "__starttls"],
                bounds={"selection": "announced SASL list from 9 (single, several in both orders, with unknown mechanisms, only "
                                     "unimplemented ones, empty, capability missing, with DIGEST-MD5, only names that merely contain an implemented mechanism name) x authmech from 7 (None, each "
                                     "implemented mechanism, unknown, lower-case) x server verdict OK/NO/BYE/silence/malformed",
                        "payload": "%d credential triples (ASCII; non-ASCII; comma, equals, quotes, backslash, spaces; empty password; "
                                   "empty and non-empty authorisation id) decoded by reference decoders for RFC 4616 PLAIN, LOGIN and "
                                   "RFC 7628 OAUTHBEARER" % H.NCREDS,
                        "after TLS": "pre- and post-TLS SASL lists chosen independently; the mechanism must come from the post-TLS list"},
                outside=["credentials outside the pool: base64/hashlib are C boundaries that realise their argument, so the solver only "
                         "enumerates the pool (the weakest use of the technique here)",
                         "DIGEST-MD5 payloads: the module is Python-2 code and raises before producing any (known finding)"],
                assumptions=["same stubs and scripted handshake server as C10"],
                stubs=["StubSocketModule", "StubSSLModule", "WSock"])
    return dict(conds=conds, meta=meta)
