from engine.xh import Cond
from harness import c08 as H

F = "harness/c08.py"


def plan(tier, seed):
    q = tier == "quick"
    conds = []
    for opi in range(H.NOPS):
        lens = (0, 1, 2) if q else (0, 1, 2, 3)
        for vlen in lens:
            if H.OPS[opi][0] == "havespace" and vlen > (1 if q else 2):
                continue
            conds.append(Cond("c08-%s-len%d" % (H.OPS[opi][0], vlen), F, "c08", env={"C08_OP": opi, "C08_VLEN": vlen},
                              timeout=280 if q else 3000))
    conds.append(Cond("c08-vacuity", F, "c08", env={"C08_OP": 1, "C08_VLEN": 1}, timeout=90, vacuity=True))
    wit = []
    for opi in range(H.NOPS):
        if H.OPS[opi][0] == "havespace":
            continue
        for v in ['a"', "a\\", "{5", "\r\n", "é€", "a\0", "}x", "a\n", "\n", "a\r", "\0\n", ".\n", "\n\0"]:
            cps = [ord(ch) for ch in v] + [0, 0]
            wit.append(dict(file=F, f="c08", args=dict(c0=cps[0], c1=cps[1], c2=0, other=1, size=0),
                            env={"C08_OP": opi, "C08_VLEN": len(v)}))
    meta = dict(witnesses=wit, functions=["sievelib.managesieve.Client.getscript/deletescript/setactive/havespace/putscript/checkscript/renamescript",
                           "__send_command", "__prepare_args", "__prepare_content", "authentication_required"],
                bounds={"value": "script name (or content) of 0..%d symbolic code points: every Unicode scalar value incl. double quote, "
                                 "backslash, CR, LF, NUL, braces, digits, '+', multi-byte characters" % (2 if q else 3),
                        "other argument": "pool of 4 (plain, quote+backslash, non-ASCII, empty)", "sizes": repr(H.SIZES)},
                outside=["values longer than the bound", "numbers are rendered by str(int): sizes come from a pool because "
                         "str(symbolic int) realises its operand"],
                assumptions=["FakeSock answers OK to everything; the bytes handed to sendall are parsed by refs/ref_ms.parse_commands "
                             "(strict RFC 5804: quoted strings with only \\\\ and \\\" escapes and no CR/LF/NUL, non-synchronising "
                             "literals, numbers)", "native RENAMESCRIPT path (server announces VERSION)"],
                stubs=["FakeSock"])
    return dict(conds=conds, meta=meta)
