from engine.xh import Cond
from harness import c09 as H

F = "harness/c09.py"


def plan(tier, seed):
    q = tier == "quick"
    conds = []
    for opi in range(H.NOPS):
        conds.append(Cond("c09-pool-%s" % H.OPS[opi][0], F, "c09_pool", env={"C09_OP": opi}, timeout=280))
    for code in (0, 1, 4):
        for form in (1, 2):
            for tlen in ((1, 2) if q else (1, 2, 3)):
                conds.append(Cond("c09-sym-code%d-%s-len%d" % (code, H.FORMS[form], tlen), F, "c09_sym",
                                  env={"C09_OP": 0, "C09_CODE": code, "C09_FORM": form, "C09_TLEN": tlen},
                                  timeout=280 if q else 1500))
    if not q:
        for opi in (1, 6, 7):
            conds.append(Cond("c09-sym-%s-quoted-len2" % H.OPS[opi][0], F, "c09_sym",
                              env={"C09_OP": opi, "C09_CODE": 0, "C09_FORM": 1, "C09_TLEN": 2}, timeout=1500))
    conds.append(Cond("c09-vacuity", F, "c09_pool", env={"C09_OP": 0}, timeout=90, vacuity=True))
    meta = dict(functions=["sievelib.managesieve.Client.__read_line", "__read_response", "__parse_error", "__send_command",
                           "deletescript/putscript/setactive/havespace/checkscript/renamescript/getscript/listscripts/capability"],
                bounds={"pool": "%d operations x {OK, NO, BYE} x %d response codes (none, plain, hierarchical, with quoted "
                                "parameters incl. one containing ')') x text absent/quoted/literal x %d texts (empty, spaces, quotes, "
                                "backslashes, trailing escaped quote, status-line and literal look-alikes, non-ASCII, CRLF inside a "
                                "literal); each followed by a sentinel operation" % (H.NOPS, H.NCODES, H.NTEXTS),
                        "symbolic": "NO reply to deletescript, 3 response codes x quoted/literal, text of %d arbitrary printable "
                                    "ASCII bytes flowing through __read_line/__parse_error symbolically" % (2 if q else 3)},
                outside=["lower-case status atoms (outside the property)", "texts longer than the symbolic bound (pool only)"],
                assumptions=["reply lines are produced by refs/ref_ms.status_line (RFC 5804 response grammar)",
                             "errcode is compared with the raw text between the parentheses, errmsg with the decoded text"],
                stubs=["FakeSock"])
    return dict(conds=conds, meta=meta)
