"""Shared plan builder for the token-level parser spaces (T1, T2) used by C01/C02/C03/C04."""
from engine.xh import Cond
from harness import pcommon as P

F = "harness/c01.py"


def parts(n, k):
    k = min(k, n)
    step = -(-n // k)
    return [(lo, min(n, lo + step)) for lo in range(0, n, step)]


def t1_conds(mode, vocab, n, nparts, ctx=0, sep="lf", timeout=300, tag=""):
    nv = len(P.VOCABS[vocab])
    out = []
    for lo, hi in parts(nv, nparts):
        out.append(Cond("t1-%s-n%d-c%d-%s%s-%02d_%02d" % (vocab, n, ctx, sep, tag, lo, hi), F, "t1_n%d" % n,
                        env={"T1_VOCAB": vocab, "T1_CTX": ctx, "T1_LO": lo, "T1_HI": hi,
                             "T1_MODE": mode, "T1_SEP": sep}, timeout=timeout))
    return out


def t2_conds(mode, k, timeout=300, sep="lf", cmds=None, split=1):
    """split > 1: commands with a large argument vocabulary are partitioned on the first argument"""
    out = []
    for c in (cmds or P.t2_commands()):
        na = len(P.t2_space(c)[1])
        ps = parts(na, split) if (split > 1 and na >= 14) else [(0, na)]
        for lo, hi in ps:
            out.append(Cond("t2-%s-k%d-%s-%02d_%02d" % (c, k, sep, lo, hi), F, "t2_k%d" % k,
                            env={"T2_CMD": c, "T1_MODE": mode, "T1_SEP": sep, "T2_LO": lo,
                                 "T2_HI": hi}, timeout=timeout))
    return out


def twins(mode):
    return [
        Cond("t1-vacuity", F, "t1_n2", env={"T1_VOCAB": "reduced", "T1_MODE": mode}, timeout=60,
             vacuity=True),
        Cond("t2-vacuity", F, "t2_k2", env={"T2_CMD": "header", "T1_MODE": mode}, timeout=60,
             vacuity=True),
    ]


PARSER_FUNCS = [
    "sievelib.parser.Parser.parse", "sievelib.parser.Lexer.scan",
    "sievelib.parser.Parser.__command/__arguments/__argument/__stringlist",
    "sievelib.parser.Parser.__check_command_completion/__up/__pop_expected_bracket",
    "sievelib.commands.get_command_instance", "sievelib.commands.Command.check_next_arg",
    "sievelib.commands.Command.iscomplete", "sievelib.commands.Command.addchild",
    "sievelib.commands.RequireCommand.complete_cb",
    "sievelib.commands.HasflagCommand.reassign_arguments",
]

COMMON_ASSUME = [
    "tokens are separated by one line end (LF or CRLF per partition); lexing of a vocabulary "
    "token followed by a line end does not depend on later bytes (re-checked by native replay "
    "of sampled paths on the fully rendered script)",
    "the real regex lexer only ever sees bytes that are concrete on the current path; which "
    "token comes next is the symbolic choice",
    "oracle R1 (refs/ref_sieve.py) and R2 (refs/ref_lex.py) are trusted; validated against the "
    "90 parser verdicts pinned by the repository's suite (refs/validate_r1.py)",
    "inputs R1 taints as outside the claim (omitted trailing required arguments, repeated tag "
    "slot, unknown extension in require, require not at the top, multi-line string inside a "
    "list) pass whatever the parser says",
]


def t4_conds(mode, timeout=300, quick=False):
    """valid corpus scripts (every command, tag, nesting form) x at most one edit x layout"""
    from harness import c01gen as G
    out = []
    nk = 4 + len(G.EDIT_TOKENS)
    for sc in range(G.NCORPUS):
        if sc in G.CORPUS_MODES and mode not in G.CORPUS_MODES[sc]:
            continue
        for lo, hi in parts(nk, 4 if quick else 16):
            out.append(Cond("t4-script%d-edit%02d_%02d" % (sc, lo, hi), "harness/c01gen.py", "t4",
                            env={"T1_MODE": mode, "T4_SCRIPT": sc, "T4_KLO": lo, "T4_KHI": hi,
                                 "T4_FREEZE": "eol,comment,tail" if quick else ""}, timeout=timeout))
    return out


T4_BOUND = ("7 valid corpus scripts (C03: 8, one more with comment look-alikes inside multi-line strings) using every supported command, tag, match type, list / multi-line form, nesting, "
            "elsif/else, anyof/allof/not; unedited and with every single edit (delete / duplicate / swap-with-next / "
            "replace by one of 12 tokens at every position) x LF/CRLF x comment placement x final line end / none / trailing comment without line end (quick tier: LF, no comment, final line end) x require written as one list / one command per extension / two lists")
