from engine.xh import Cond
from harness import c17 as H

F = "harness/c17.py"


def plan(tier, seed):
    q = tier == "quick"
    conds = []
    for lo in range(0, H.NLINES, 1 if not q else 2):
        hi = lo + (1 if not q else 2)
        conds.append(Cond("body-l%02d" % lo, F, "body", env={"C17_LO": lo, "C17_HI": hi, "C17_MAXN": 2 if q else 3}, timeout=280 if q else 2000))
    for lo in range(0, H.NNAMES, 1 if not q else 2):
        hi = lo + (1 if not q else 2)
        conds.append(Cond("listing-n%02d" % lo, F, "listing", env={"C17_LO": lo, "C17_HI": hi, "C17_MAXN": 2 if q else 3}, timeout=280 if q else 2000))
    conds.append(Cond("body-vacuity", F, "body", env={"C17_LO": 0, "C17_HI": 1}, timeout=90, vacuity=True))
    conds.append(Cond("listing-vacuity", F, "listing", env={"C17_LO": 0, "C17_HI": 1}, timeout=90, vacuity=True))
    meta = dict(functions=["sievelib.managesieve.Client.getscript", "listscripts", "__read_response", "__read_line", "__read_block",
                           "__send_command"],
                bounds={"bodies": "0-%d lines from a pool of %d (OK / NO / BYE / {n} / {n+} / ACTIVE / quoted look-alikes, empty, "
                                  "non-ASCII) x LF/CRLF x final newline or not x served as quoted string (when legal) or literal"
                                  % (2 if q else 3, H.NLINES),
                        "listings": "1-%d names from a pool of %d look-alikes (ACTIVE, '{5}', OK, names with quote/backslash, "
                                    "non-ASCII, spaces) x each served quoted-with-escapes or as literal x active marker on any/none"
                                    % (2 if q else 3, H.NNAMES)},
                outside=["bodies/names outside the pools (one symbolic ASCII line is exercised by C09/C05's reader lemmas, not here)"],
                assumptions=["refs/ref_ms.Server holds the data and chooses encodings; bodies compared line by line ignoring "
                             "line-ending style and trailing blank lines"],
                stubs=["FakeSock", "reference server"])
    from engine import e2
    return dict(conds=conds, meta=meta, obligations=e2.c17_obligations())
