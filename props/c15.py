from engine.xh import Cond
from harness import c15 as H
from props._parser_plans import parts

F = "harness/c15.py"


def plan(tier, seed):
    q = tier == "quick"
    conds = []
    combos = [(1, 2), (0, 2)] if q else [(v, i) for v in (1, 0) for i in (0, 1, 2)]
    L = 2 if q else 3
    for ver, init in combos:
        for lo, hi in parts(H.NOPS, 4 if q else 17):
            env = {"C15_VERSION": ver, "C15_INIT": init, "C15_L": L, "C15_OP0LO": lo, "C15_OP0HI": hi,
                   "C15_NCUTS": 3 if q else 5}
            if q or L == 3:
                env["C15_FREEZE"] = "form-text"
            if not q:
                env["C15_NCUTS"] = 2
            conds.append(Cond("session-v%d-i%d-op%02d" % (ver, init, lo), F, "session", env=env, timeout=280 if q else 1800))
            if "C15_FREEZE" in env and (not q or (ver, init) == (1, 2)):
                # the same sessions with every status text served as a literal (an OK then has the shape 'OK (WARNINGS) {n}')
                conds.append(Cond("session-lit-v%d-i%d-op%02d" % (ver, init, lo), F, "session", env=dict(env, C15_FORMTEXT=1),
                                  timeout=280 if q else 1800))
    if not q:
        for ver, init in combos:
            conds.append(Cond("session2-v%d-i%d" % (ver, init), F, "session",
                              env={"C15_VERSION": ver, "C15_INIT": init, "C15_L": 2, "C15_NCUTS": 5}, timeout=1800))
    conds.append(Cond("session-vacuity", F, "session", env={"C15_L": 1}, timeout=90, vacuity=True))
    meta = dict(functions=["sievelib.managesieve.Client: every public operation, __send_command, __read_response, __read_line, "
                           "__read_block, __parse_error, __prepare_args, __prepare_content"],
                bounds={"sessions": "all sessions of %d operations from %d concrete operations (two names, one of them a protocol "
                                    "look-alike with a quote; two bodies, one made of look-alike lines and non-ASCII; rename both "
                                    "ways; sizes under/over quota) from %s" % (L, H.NOPS, "2 initial states" if q else "3 initial states"),
                        "server": "reference model with and without RENAMESCRIPT, quota 40 octets; names/bodies/texts served quoted or "
                                  "as literal (one choice per kind per session); every reply cut into two segments at one of %s places"
                                  % ("3" if q else "5 (L=2) / 2 (L=3)")},
                outside=["sessions longer than %d operations" % L, "unit-level coverage of each ingredient is C05/C08/C09/C17"],
                assumptions=["expected answers are computed from the reference server's state before the command by rules written from "
                             "RFC 5804; a NO must carry the sequence number the server embedded in that very reply"],
                stubs=["FakeSock", "reference server"])
    return dict(conds=conds, meta=meta)
