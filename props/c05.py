import time
from engine.xh import Cond
from harness import c05 as H

F = "harness/c05.py"


def plan(tier, seed):
    q = tier == "quick"
    conds = []
    obligations = []
    t0 = time.time()
    sites = H.recv_call_sites()
    ok = set(sites) <= {"__read_block", "__read_line"}
    obligations.append(dict(name="L0: recv() is called only inside __read_line/__read_block (AST of managesieve.py)",
                            status="discharged" if ok else "refuted", seconds=time.time() - t0,
                            detail={"call_sites": sites}, sig="C05/L0/recv-called-elsewhere", witness=sites))
    maxb, max1, max2, tot = (2, 2, 2, 5) if q else (3, 3, 3, 7)
    for lb in range(maxb + 1):
        for l1 in range(1, max1 + 1):
            for l2 in range(max2 + 1):
                for eof in ("timeout", "eof"):
                    if eof == "eof" and (lb + l1 + l2 > 3):
                        continue
                    env = {"C05_LB": lb, "C05_L1": l1, "C05_L2": l2, "C05_EOF": eof}
                    conds.append(Cond("l1-block-%d%d%d-%s" % (lb, l1, l2, eof), F, "l1_block", env=env, timeout=200))
                    if lb + l1 + l2 <= tot:
                        conds.append(Cond("l1-line-%d%d%d-%s" % (lb, l1, l2, eof), F, "l1_line", env=env,
                                          timeout=280 if q else 1500))
    for opi in range(H.NOP):
        conds.append(Cond("l2-%s-1cut" % H.OPS[opi][0], F, "l2", env={"C05_OP": opi, "C05_TWO": 0, "C05_NCAPS": 3 if q else 6},
                          timeout=280 if q else 1500))
        if not q:
            conds.append(Cond("l2-%s-2cuts" % H.OPS[opi][0], F, "l2", env={"C05_OP": opi, "C05_TWO": 1, "C05_NCAPS": 2},
                              timeout=1500))
    conds.append(Cond("l3-big-replies", F, "l3", timeout=280 if q else 900))
    conds.append(Cond("l1-vacuity", F, "l1_line", env={"C05_LB": 1, "C05_L1": 1, "C05_L2": 1}, timeout=90, vacuity=True))
    conds.append(Cond("l2-vacuity", F, "l2", env={"C05_OP": 5}, timeout=90, vacuity=True))
    meta = dict(functions=["sievelib.managesieve.Client.__read_block", "__read_line", "__read_response", "__parse_error",
                           "__send_command", "and every public operation (L2)"],
                bounds={"L1": "read_block: arbitrary bytes, |B|<=%d, 1<=|S1|<=%d, |S2|<=%d, n<=8; read_line: arbitrary ASCII bytes, "
                              "same lengths with total <= %d; end of stream as timeout and as closed connection; the number of "
                              "segments is unbounded by induction" % (maxb, max1, max2, tot),
                        "L2": "%d operations x reply corpus (%d replies from the RFC 5804 reply grammar) x every placement of one "
                              "cut%s x recv() capped at %s, each followed by a sentinel operation; compared with the single-segment run"
                              % (H.NOP, sum(len(c) for c in H.CORPUS), "" if q else " (and of two cuts for replies up to 80 bytes, caps none/1)",
                                 "none/1/3" if q else "none/1/2/3/7/64")},
                outside=["L3: three replies of 6-11 kB (script body, listing, NO with a 4 kB literal text after a big body) x 19 cut places "
                         "around 0 and the 4096 / 8192 boundaries x recv() capped at none/4096/1000/64",
                         "segment contents longer than the L1 bounds (covered only through L2's corpus)",
                         "non-ASCII bytes in the line reader lemma (CrossHair's regex model is not exact above 0x7f); they occur in L2"],
                assumptions=["FakeSock.recv(n) returns at most n bytes of the head segment; nothing left = socket.timeout, or b'' "
                             "when eof mode", "L1 side condition L0 is re-derived from the AST on every run"],
                stubs=["FakeSock"])
    return dict(conds=conds, meta=meta, obligations=obligations)
