from engine.xh import Cond
from harness import c06 as H

F = "harness/c06.py"


def plan(tier, seed):
    q = tier == "quick"
    conds = []
    step = 2 if q else 1
    for lo in range(0, H.NC, step):
        conds.append(Cond("f1-cond%02d" % lo, F, "f1", env={"C06_CLO": lo, "C06_CHI": min(H.NC, lo + step)},
                          timeout=280 if q else 1500))
    for slot in range(H.NSLOTS):
        for vlen in ((1, 2) if q else (1, 2, 3)):
            conds.append(Cond("f2-%s-len%d" % (H.SLOTS[slot][0], vlen), F, "f2",
                              env={"C06_SLOT": slot, "C06_VLEN": vlen}, timeout=200 if q else 1500))
    conds.append(Cond("f1-vacuity", F, "f1", env={"C06_CLO": 0, "C06_CHI": 1}, timeout=90, vacuity=True))
    conds.append(Cond("f2-vacuity", F, "f2", env={"C06_SLOT": 1, "C06_VLEN": 1}, timeout=90, vacuity=True))
    meta = dict(functions=["sievelib.factory.FiltersSet.addfilter/updatefilter/replacefilter/disablefilter/enablefilter/movefilter/"
                           "removefilter/tosieve", "__create_filter", "__build_condition", "__quote_if_necessary/__quote", "require",
                           "check_if_arg_is_extension", "__gen_require_command", "sievelib.commands.Command.tosieve",
                           "sievelib.commands.Command.check_next_arg", "sievelib.parser.Parser.parse (on the output)"],
                bounds={"F1": "%d condition definitions (every documented kind, :not forms, string and list values) x optional second "
                              "condition (4) x %d action definitions (every kind, every tag) x optional second action (4) x anyof/allof "
                              "x %d set-operation scenarios" % (H.NC, H.NA, H.NOPS),
                        "F2": "%d value slots; the value is 1..%d symbolic code points (any code point; first one not a quote "
                              "character); rendered text must equal the skeleton with the RFC 5228 quoted form of the value"
                              % (H.NSLOTS, 2 if q else 3)},
                outside=["values longer than the F2 bound", "values starting with a quote character (property text)",
                         "values starting with ':' (in an action tuple such an element is, by the API's own convention, a tag)",
                         "F1 varies one dimension at a time around each (condition, action) pair",
                         "header conditions with extension match types (:regex ...) are exercised in C13's factory harness"],
                assumptions=["F2: the rendered text is compared, still symbolic, with pre + quoted(v) + post where pre/post come from "
                             "rendering the same definition with a marker value; that the parser then reads the quoted form back as one "
                             "string token is the lexer's string rule (C04 S2 / E2 lemma)",
                             "tosieve(target=Buf) with a pure-Python write target (io.StringIO would realise the text)"],
                stubs=["Buf write target"])
    return dict(conds=conds, meta=meta)
