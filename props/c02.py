from props._parser_plans import *
from harness import c02 as H


def plan(tier, seed):
    q = tier == "quick"
    conds = []
    if q:
        conds += t1_conds("c02", "full", 2, 8, timeout=200)
        conds += t1_conds("c02", "reduced", 4, 6, timeout=240)
        for ctx in (1, 5, 8, 11):
            conds += t1_conds("c02", "full", 1, 1, ctx=ctx, timeout=120)
        bounds = {"P2": "full vocabulary N=2; reduced N=4; 4 contexts x full N=1"}
    else:
        conds += t1_conds("c02", "full", 3, 44, timeout=1500)
        conds += t1_conds("c02", "reduced", 6, 26, timeout=2400)
        for ctx in range(1, len(P.CONTEXTS)):
            conds += t1_conds("c02", "full", 2, 4, ctx=ctx, timeout=600)
        conds += t2_conds("c02", 4, timeout=2400, split=6)
        bounds = {"P2": "full vocabulary N=3; reduced N=6; contexts x full N=2; T2 K=4"}
    for lead in range(H.NL):
        for crlf in (0, 1):
            conds.append(Cond("p3-errmsg-l%d-%s" % (lead, "crlf" if crlf else "lf"), "harness/c02.py", "p3",
                              env={"P3_LEAD": lead, "P3_CRLF": crlf}, timeout=600))
    for i in range(H.NC):
        n = len(H.CORPUS[i])
        for lo, hi in parts(n, 3):
            conds.append(Cond("p4-mutate-%d-%03d_%03d" % (i, lo, hi), "harness/c02.py", "p4",
                              env={"P4_SCRIPT": i, "P4_LO": lo, "P4_HI": hi}, timeout=600))
    conds.append(Cond("p5-size", "harness/c02.py", "p5", timeout=600))
    bounds["P5"] = ("%d script shapes (nested not / blocks / anyof, long list, many commands, unclosed blocks, elsif chain, long comment "
                    "and string) at sizes %s" % (H.NSH, H.DEPTHS))
    conds.append(Cond("p3-vacuity", "harness/c02.py", "p3", timeout=60, vacuity=True))
    conds += t4_conds("c02", timeout=280 if q else 1500, quick=q)
    bounds["T4"] = T4_BOUND
    conds += twins("c02")[:1]
    bounds["P3"] = "0-8 two-byte characters in 4 kinds of leading text x LF/CRLF x %d erroneous tails x 3 trailers" % H.NT
    bounds["P4"] = "%d valid scripts x every byte position x {replace, insert} by one of %d bytes, and truncation at every position" % (H.NC, H.NM)
    meta = dict(functions=PARSER_FUNCS + ["sievelib.parser.Lexer.curlineno", "sievelib.parser.Lexer.curcolno"],
                bounds=bounds,
                outside=["regex-internal backtracking time (the claim counts lexer steps: the fuel guard allows "
                         "at most 12 len() polls per token)", "inputs needing more than N tokens"],
                assumptions=COMMON_ASSUME[:2] + ["P3/P4: all bytes are concrete on a path; the symbolic ints select the case"],
                stubs=["LazyScript(bytearray) supplies the script"])
    from engine import e2
    return dict(conds=conds, meta=meta, obligations=e2.c02_obligations())
