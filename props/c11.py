from engine.xh import Cond
from props.c12 import hist_conds, FUNCS, F


def plan(tier, seed):
    q = tier == "quick"
    conds = []
    if q:
        conds += hist_conds("c11", 2, 240, {"C11_PRETEXT": 0}, by_name=True, nd=1)
        conds += hist_conds("c11", 2, 240, {"C11_PRETEXT": 1}, nn=2, nd=2)
        conds += hist_conds("c11", 2, 240, {"C11_PRETEXT": 2}, nn=2, nd=1)
        conds += [c for c in hist_conds("c11", 3, 280, {"C11_PRETEXT": 0}, by_name=True, nn=2, nd=1) if "-add-" in c.name]
        conds += [c for c in hist_conds("c11", 3, 280, {"C11_PRETEXT": 2}, by_name=True, nn=2, nd=1) if "-add-" in c.name]
        b = ("all histories of length 2 (3 names + a bytes alias x 1 definition, default markers; 2 x 2 with custom markers; 2 x 1 with "
             "markers containing regex metacharacters); all histories of length 3 over 2 names that start with addfilter "
             "(default markers and markers with metacharacters)")
    else:
        for pt in (0, 1, 2):
            plain = hist_conds("c11", 3, 1500, {"C11_PRETEXT": pt}, by_name=True, nn=2, nd=1)
            split = hist_conds("c11", 3, 1500, {"C11_PRETEXT": pt}, by_name=True, nn=2, nd=1, by_op1=True)
            conds += [c for c in plain if "-replace-" not in c.name] + [c for c in split if "-replace-" in c.name]
            conds += hist_conds("c11", 2, 900, {"C11_PRETEXT": pt}, by_name=True, nd=1)
        conds += hist_conds("c11", 2, 900, {"C11_PRETEXT": 0}, by_name=True, nd=2)
        b = ("all histories of length 3 over 2 names and of length 2 over 3 names (+ bytes alias), with default markers, custom "
             "markers and markers containing regex metacharacters; length 2 with 2 definitions (default markers)")
    conds.append(Cond("c11-vacuity", F, "hist2", env={"C12_MODE": "c11"}, timeout=90, vacuity=True))
    meta = dict(functions=FUNCS + ["sievelib.factory.FiltersSet.tosieve/__str__", "from_parser_result", "require",
                                   "__gen_require_command", "sievelib.parser.Parser.parse (hash comment collection)"],
                bounds={"histories": b, "names": "3 (ASCII, ASCII, non-ASCII with a space)",
                        "descriptions": "absent, plain, with '#', ':' and quotes, and one carrying the other configuration's marker text"},
                outside=["names/descriptions outside the pools; a character-level lemma on the comment rule is part of C01/C02's E2 set"],
                assumptions=["after every step of the history: render -> real Parser -> from_parser_result -> render; trees compared "
                             "through the normaliser of C03; fixed point checked on the reloaded set",
                             "replacefilter receives a Command built through the same set (so its requires are tracked)"],
                stubs=[])
    return dict(conds=conds, meta=meta)
