from engine.xh import Cond
from harness import c14 as H

F = "harness/c14.py"


def plan(tier, seed):
    q = tier == "quick"
    conds = []
    for old in range(3):
        for new in range(3):
            if q:
                conds.append(Cond("rename-%d-%d" % (old, new), F, "rename",
                                  env={"C14_OLD": old, "C14_NEW": new, "C14_BODIES": "0,3,4,7"}, timeout=280))
            else:
                for bodies in ("0,1", "2,3", "4,7", "5,6"):
                    conds.append(Cond("rename-%d-%d-b%s" % (old, new, bodies.replace(",", "")), F, "rename",
                                      env={"C14_OLD": old, "C14_NEW": new, "C14_BODIES": bodies}, timeout=1800))
                conds.append(Cond("rename-twice-%d-%d" % (old, new), F, "rename",
                                  env={"C14_OLD": old, "C14_NEW": new, "C14_BODIES": "0", "C14_TWICE": 1, "C14_NF": 3}, timeout=1800))
    conds.append(Cond("rename-vacuity", F, "rename", env={"C14_OLD": 0, "C14_NEW": 1, "C14_BODIES": "0"}, timeout=90, vacuity=True))
    meta = dict(functions=["sievelib.managesieve.Client.renamescript (emulated branch)", "listscripts", "getscript", "putscript",
                           "setactive", "deletescript", "__send_command", "__read_response", "__read_line", "__read_block"],
                bounds={"states": "3 pool names each present or absent x active none/each x old,new over all 9 pairs (incl. old = new, "
                                  "new = active, old absent) x %s body variants (LF/CRLF, no final newline, empty, protocol look-alike "
                                  "lines, non-ASCII, nested block, Unicode/ASCII separator characters that str.splitlines() but not bytes.splitlines() treats as line breaks)" % ("4" if q else "8"),
                        "faults": "each of the up to 5 steps (LISTSCRIPTS, GETSCRIPT, PUTSCRIPT, SETACTIVE, DELETESCRIPT) answered OK, NO, "
                                  "BYE, not at all (timeout) or by closing the connection; forced lazily, so every placement is explored"
                                  + ("" if q else "; plus a second rename back in the same session (faults OK/NO/BYE)")},
                outside=["more than 3 scripts on the server", "servers that corrupt data themselves"],
                assumptions=["refs/ref_ms.Server without VERSION (no RENAMESCRIPT) is the oracle for what exists afterwards; bodies "
                             "compared ignoring line-ending style and trailing blank lines"],
                stubs=["FakeSock", "reference server with fault injection"])
    return dict(conds=conds, meta=meta)
