from props._parser_plans import PARSER_FUNCS, COMMON_ASSUME
from engine.xh import Cond

F = "harness/c20.py"


def plan(tier, seed):
    q = tier == "quick"
    conds = []
    if q:
        combos = [("action", "", 1, 0), ("test", "x-ext", 1, 0), ("action", "x-ext", 0, 0)]
        k = 3
    else:
        combos = [(r, e, req, two) for r in ("action", "test") for (e, req) in (("", 1), ("x-ext", 1), ("x-ext", 0))
                  for two in (0, 1)]
        k = 4
    for role, ext, req, two in combos:
        if ext and not req:
            parts_ = [(0, 7, 0, 3)]
        else:
            parts_ = [(s, s + 1, r, r + 1) for s in range(7) for r in range(3)]
        for s0lo, s0hi, r0lo, r0hi in parts_:
            # K=4 where the space allows it: one tag slot and no extension dimension; otherwise K=3
            kk = k if (q or (not two and not ext)) else 3
            conds.append(Cond("c20-%s-%s-req%d-slots%d-k%d-s%d-r%d" % (role, ext or "noext", req, 2 if two else 1, kk, s0lo, r0lo),
                              F, "c20_k%d" % kk,
                              env={"C20_ROLE": role, "C20_EXT": ext, "C20_REQUIRE": req, "C20_TWO_SLOTS": two,
                                   "C20_S0LO": s0lo, "C20_S0HI": s0hi, "C20_R0LO": r0lo, "C20_R0HI": r0hi},
                              timeout=280 if q else 1800))
    conds.append(Cond("c20-vacuity", F, "c20_k3", env={"C20_ROLE": "action"}, timeout=90, vacuity=True))
    meta = dict(functions=["sievelib.commands.add_commands", "sievelib.commands.get_command_instance",
                           "sievelib.commands.Command.check_next_arg", "sievelib.commands.Command.iscomplete",
                           "sievelib.commands.Command.tosieve"] + PARSER_FUNCS[:4],
                bounds={"definitions": "role action/test; extension none / x-ext (required or not); %s optional tag slot(s), each "
                                       "of 6 kinds (no parameter; string / number / string-or-list parameter; string parameter "
                                       "restricted to a value set; two tags of which only one takes a parameter) or absent; "
                                       "1-2 required arguments of type string / number / string-or-list" % ("1-2" if not q else "0-1"),
                        "uses": "K=%d (thorough: K=4 for one tag slot without extension, else K=3) argument tokens from an 11-entry vocabulary (every tag of the slots, upper-case and unknown "
                                "tags, string, restricted value, list, number, terminator)" % k},
                outside=["definitions without a required argument (excluded by the property)", "more than 2 tag slots / 2 required arguments"],
                assumptions=COMMON_ASSUME[2:4] + ["R1 is instantiated from the same symbolic definition (refs/ref_sieve.py CMDS['xcmd'])",
                                                  "the class is created with type() and registered through the real add_commands; it is "
                                                  "removed from the module namespace at the end of every path"],
                stubs=["LazyScript"])
    return dict(conds=conds, meta=meta)
