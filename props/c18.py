from engine.xh import Cond

def plan(tier, seed):
    q = tier == "quick"
    conds = [
        Cond("u1-arith", "harness/c18.py", "u1_arith", env={"C18_MAXLEN": 4 if q else 6}, timeout=100 if q else 600),
        Cond("u1-arith-vac", "harness/c18.py", "u1_arith", env={"C18_MAXLEN": 2}, timeout=60, vacuity=True),
    ]
    meta = dict(functions=["sievelib.parser.Lexer.curlineno", "sievelib.parser.Lexer.curcolno"],
                bounds={"text_bytes": 4 if q else 6}, assumptions=[])
    return dict(conds=conds, meta=meta)
