from props._parser_plans import *
from harness import c18 as H


def plan(tier, seed):
    q = tier == "quick"
    conds = [
        Cond("u1-arith", "harness/c18.py", "u1_arith", env={"C18_MAXLEN": 4 if q else 6}, timeout=200 if q else 1500),
        Cond("u1-arith-vac", "harness/c18.py", "u1_arith", env={"C18_MAXLEN": 2}, timeout=60, vacuity=True),
    ]
    for pi in range(H.NP):
        conds.append(Cond("u2-templates-p%d" % pi, "harness/c18.py", "u2", env={"U2_PREFIX": pi}, timeout=300))
    conds.append(Cond("u2-vacuity", "harness/c18.py", "u2", env={"U2_PREFIX": 1}, timeout=60, vacuity=True))
    if q:
        conds += t1_conds("c18", "full", 2, 8, timeout=200)
        conds += t2_conds("c18", 3, timeout=240, split=3)
        b3 = "full vocabulary N=2; every command K=3"
    else:
        conds += t1_conds("c18", "full", 3, 44, timeout=1500)
        conds += t1_conds("c18", "full", 3, 44, sep="crlf", timeout=1500)
        conds += t2_conds("c18", 4, timeout=2400, split=6)
        b3 = "full vocabulary N=3 (LF and CRLF); every command K=4"
    conds += t4_conds("c18", timeout=280 if q else 1500, quick=q)
    wit = []
    for text in (b"a\rb", b"\r\rxy", b"a\x0bb", b"a\x0cb\n", b"\x1cab", b"a\xc2\x85b", b"\n\r\nx", b"ab\r"):
        for pos in range(len(text) + 1):
            wit.append(dict(file="harness/c18.py", f="u1_arith", args={"text": {"__bytes__": text.hex()}, "pos": pos},
                            env={"C18_MAXLEN": 6}))
    meta = dict(witnesses=wit, functions=["sievelib.parser.Lexer.curlineno", "sievelib.parser.Lexer.curcolno", "sievelib.parser.Lexer.scan",
                           "sievelib.parser.Parser.parse (error / error_pos assembly)"] + PARSER_FUNCS[2:],
                bounds={"U1": "every byte string of length <= %d and every position" % (4 if q else 6),
                        "U2": "%d valid multi-line prefixes (comments, multi-byte text) x 0-3 blank lines x 0-3 leading spaces x "
                              "LF/CRLF x %d offending tokens (every class in the statement, plus 13 rejections of the 'every other' kind) x %d different continuations"
                              % (H.NP, H.NO, len(H.SUFFIXES)),
                        "U3 (other rejections)": b3 + "; " + T4_BOUND},
                outside=["scripts larger than the templates", "columns count bytes, as the statement says"],
                assumptions=COMMON_ASSUME[:3] + ["U2: with CRLF line ends the prefix that contains a text: block is replaced by an "
                                                 "equivalent one with a quoted string (text: + CRLF is a known finding of C01)"],
                stubs=["LazyScript(bytearray) supplies the script in U3"])
    return dict(conds=conds, meta=meta)
