from props._parser_plans import parts, PARSER_FUNCS
from engine.xh import Cond
from harness import c13 as H


def plan(tier, seed):
    q = tier == "quick"
    conds = []
    for lo, hi in parts(H.NS, 16):
        conds.append(Cond("havoc-%03d_%03d" % (lo, hi), "harness/c13.py", "havoc",
                          env={"C13_LO": lo, "C13_HI": hi}, timeout=280 if q else 1200))
    conds.append(Cond("factory-havoc", "harness/c13.py", "fhavoc", timeout=280 if q else 900))
    conds.append(Cond("loader-havoc", "harness/c13.py", "fload", timeout=280 if q else 900))
    conds.append(Cond("factory-havoc-vacuity", "harness/c13.py", "fhavoc", timeout=90, vacuity=True))
    conds.append(Cond("havoc-vacuity", "harness/c13.py", "havoc", env={"C13_LO": 0, "C13_HI": 3}, timeout=90, vacuity=True))
    meta = dict(functions=PARSER_FUNCS + ["sievelib.parser.Parser.__reset_parser", "sievelib.commands.Command.tosieve",
                                      "sievelib.factory.FiltersSet.addfilter/disablefilter/updatefilter/__create_filter/__build_condition"],
                bounds={"corpus": "%d scripts (the suite's own, plus truncated / extension-dependent ones)" % H.NS,
                        "junk": "bracket stack / comments / pending list: symbolic lists of length <= 2; expected: optional "
                                "tuple of <= 2 symbolic strings; state function and current command from 4 candidates each; "
                                "lexer position 0..10; arbitrary loaded-extension set; parser attributes not known to the "
                                "harness are poisoned"},
                outside=["factory: one add/disable/update sequence per (condition, action) pair of the pools",
                         "junk values larger than the bounds", "scripts outside the corpus"],
                assumptions=["inductive reading: independence from an arbitrary pre-state implies independence from every "
                             "history; the list of state attributes is re-derived from the AST of parser.py on every run",
                             "a parse may not change the commands module's shared definitions (argument tables, class attributes): compared "
                             "before/after every parse of the corpus -- with that invariant the havocked attributes are the only "
                             "state a history can leave behind", "expected outcomes come from a pristine Parser in the same process with an empty global list"],
                stubs=["LazyExtSet for RequireCommand.loaded_extensions"])
    return dict(conds=conds, meta=meta)
