from props._parser_plans import parts, PARSER_FUNCS, COMMON_ASSUME
from engine.xh import Cond
from harness import pcommon as P
from harness import c07 as H

F = "harness/c07.py"


def t1(n, nparts, ctx=0, timeout=300):
    nv = len(P.VOCABS["full"])
    return [Cond("ext-t1-n%d-c%d-%02d_%02d" % (n, ctx, lo, hi), F, "ext_t1_n%d" % n,
                 env={"T1_VOCAB": "full", "T1_LO": lo, "T1_HI": hi, "C07_CTX": ctx}, timeout=timeout)
            for lo, hi in parts(nv, nparts)]


def plan(tier, seed):
    q = tier == "quick"
    conds = []
    for lo, hi in parts(H.NCAR, 8 if q else 16):
        conds.append(Cond("ext-carrier-%03d_%03d" % (lo, hi), F, "ext_carrier",
                          env={"C07_LO": lo, "C07_HI": hi}, timeout=300 if q else 900))
    if q:
        conds += t1(2, 12, timeout=240)
        for ctx in range(1, len(H.CONTEXTS)):
            conds += t1(2, 6, ctx=ctx, timeout=240)
        b = "arbitrary loaded set S x full vocabulary N=2 from the initial state and from %d context prefixes" % (len(H.CONTEXTS) - 1)
    else:
        conds += t1(3, 88, timeout=2400)
        for ctx in range(1, len(H.CONTEXTS)):
            conds += t1(2, 8, ctx=ctx, timeout=1200)
        b = ("arbitrary loaded set S x full vocabulary N=3 from the initial state, N=2 from %d context prefixes"
             % (len(H.CONTEXTS) - 1))
    conds.append(Cond("ext-vacuity", F, "ext_carrier", env={"C07_LO": 0, "C07_HI": 4}, timeout=60, vacuity=True))
    meta = dict(functions=PARSER_FUNCS + ["sievelib.commands.Command.__is_valid_value_for_arg (extension_values)",
                                          "sievelib.commands.RequireCommand.loaded_extensions (replaced by LazyExtSet)"],
                bounds={"tokens": b, "carriers": "%d carrier scripts (24 extension-bound constructs x 6 positions, upper-case "
                                                 "command and tag spellings, 3 two-construct scripts) x arbitrary S" % H.NCAR},
                outside=["extension names unknown to the frozen table", "token sequences longer than N"],
                assumptions=COMMON_ASSUME[:3] + [
                    "LazyExtSet replaces RequireCommand.loaded_extensions at the first lexer poll, i.e. right after "
                    "Parser.__reset_parser: equivalent to the script starting with require [S] for an arbitrary S; "
                    "names required by a real require command inside the script are members unconditionally"],
                stubs=["LazyScript", "LazyExtSet"])
    return dict(conds=conds, meta=meta)
