"""Single source for MANIFEST.json (bin/gen-manifest)."""
TB = ("Trusted base: CrossHair's path exploration and its models of int/str/bytes/list; z3; the oracles under "
      "/verif/refs (validated against the verdicts pinned by the repository's suite); the harness devices listed in "
      "the evidence file's assumptions/stubs. ")
CHECKS = {}
NOT_APPLICABLE = {}
NOTES = ("Every check regenerates its encoding from /repo's working tree on each run; bounded results are stated as "
         "bounded in evidence (coverage.bounds / outside_bounds / conditions_not_exhausted). Exit 3 = machinery error.")


def add(pid, text, ref, technique, note=""):
    CHECKS[pid] = dict(text=text, ref=ref, technique=technique, note=TB + note)


add("C01",
    "Bounded symbolic model checking: for every token sequence up to the stated length over a vocabulary holding every "
    "command, tag and token class (and per command every argument sequence up to K), the solver-driven exploration "
    "compares Parser.parse's verdict with an independent RFC 5228 recogniser; each partition must be exhausted; plus valid "
    "corpus scripts with every single edit and layout variation, and unbounded z3 lemmas equating the lexer rules with the "
    "RFC 5228 token classes.",
    "DESIGN.md 3/C01", "CrossHair symbolic execution (z3) of Parser.parse on lazily materialised symbolic token choices vs reference grammar")
add("C02",
    "Bounded symbolic model checking of totality: same token spaces plus error-message construction after multi-byte "
    "text and single-byte mutations/truncations of valid scripts; asserts a boolean verdict, no exception, bounded "
    "lexer polls, well-formed error/error_pos, for parse and parse_file alike; script shapes at sizes up to 6000; unbounded z3 "
    "lemmas: every lexer rule is epsilon-free and no repeated sub-pattern has ambiguous iterations (no exponential backtracking).",
    "DESIGN.md 3/C02", "CrossHair symbolic execution (z3) of Parser.parse/parse_file with fuel-guarded lazy script; z3 regex lemmas (epsilon-freeness, unambiguous repeats)")
add("C03",
    "Bounded symbolic model checking: on every accepting path of the token/argument spaces the tree in Parser.result "
    "(normalised through public attributes) equals the tree an independent RFC 5228 8.2 parser builds from the tokens.",
    "DESIGN.md 3/C03", "CrossHair symbolic execution (z3) of Parser.parse; tree comparison with reference parser")
add("C04",
    "Bounded symbolic model checking of the print/parse round trip on every accepting path (structure), and on one "
    "symbolic string value per slot (values).",
    "DESIGN.md 3/C04", "CrossHair symbolic execution (z3) of Parser.parse + Command.tosieve, symbolic str values through check_next_arg/tosieve")
add("C18",
    "Bounded symbolic model checking: line/column arithmetic for every byte string up to the bound and every "
    "position; whole-parser positions over templates.",
    "DESIGN.md 3/C18", "CrossHair symbolic execution (z3) of Lexer.curlineno/curcolno on symbolic bytes; template exploration")
add("C07",
    "Bounded symbolic model checking with the loaded-extension set itself symbolic (13 booleans forced on demand): for "
    "every accepted input of the token spaces and of 184 carrier scripts every extension the reference walk finds is in "
    "the set; a missing extension is reported by name, first in script order.",
    "DESIGN.md 3/C07", "CrossHair symbolic execution (z3) of Parser.parse with a symbolic loaded-extension set (LazyExtSet) vs frozen extension table")
add("C13",
    "Inductive step by symbolic execution: with every attribute the parser keeps between calls set to an arbitrary "
    "(symbolic) value and an arbitrary global extension list, parse() of each corpus script gives exactly the pristine "
    "outcome (verdict, error, tree, serialisation, comments) and leaves the module's shared definitions untouched; "
    "FiltersSet building and loading do not depend on an arbitrary global extension list.",
    "DESIGN.md 3/C13", "CrossHair symbolic execution (z3) of Parser.parse from a havocked (symbolic) pre-state; AST-derived state list")
add("C20",
    "Bounded symbolic model checking over symbolic command definitions of the documented shape registered through the "
    "real add_commands, and all argument sequences up to K; verdict, recorded names, tree and print/parse round trip "
    "compared with the reference grammar instantiated from the same definition.",
    "DESIGN.md 3/C20", "CrossHair symbolic execution (z3) of add_commands + Parser.parse + tosieve over symbolic definitions and argument sequences")
add("C11",
    "Bounded symbolic model checking over editing histories: after every step the set is rendered, parsed by the real "
    "parser, reloaded with from_parser_result and rendered again; names, order, enabled status, descriptions, requires "
    "and trees must survive and the reloaded rendering must be a fixed point.",
    "DESIGN.md 3/C11", "CrossHair symbolic execution (z3) enumerating operation histories of FiltersSet; save/load round trip through the real parser")
add("C12",
    "Bounded symbolic model checking over editing histories compared in lock-step with a reference list model: results, "
    "order, uniqueness, enabled flag vs is_filter_disabled vs rendering, and getfilter returning the filter's own content.",
    "DESIGN.md 3/C12", "CrossHair symbolic execution (z3) enumerating operation histories of FiltersSet vs reference list model")
add("C19",
    "Bounded symbolic model checking of the read-back path with a symbolic value (code points are solver variables) in "
    "each condition/action slot, and exhaustive pools for multi-condition filters, disabled and reloaded sets.",
    "DESIGN.md 3/C19", "CrossHair symbolic execution (z3) of addfilter/args_as_tuple/to_list with symbolic string values; pool enumeration for reload")
add("C06",
    "Bounded symbolic model checking: every documented condition/action kind and set-operation scenario by symbolic "
    "index (output accepted by the real parser, strictly valid for the reference grammar, leading require covers every "
    "extension used), and a value of symbolic code points in each value slot whose rendering must be exactly the RFC "
    "5228 quoted form inside the unchanged skeleton.",
    "DESIGN.md 3/C06", "CrossHair symbolic execution (z3) of FiltersSet + Command.tosieve with symbolic string values; reference grammar on the output")
add("C05",
    "Inductive step by symbolic execution: for arbitrary buffer and segment contents within the length bounds, reading "
    "from (buffer, [S1, S2]) and from (buffer+S1, [S2]) gives the same result and leftover for the block reader and the "
    "line reader (so any number of segments is equivalent to one); plus every operation over a reply corpus with "
    "symbolic cut points and recv() caps followed by a sentinel operation, incl. replies larger than the read size.",
    "DESIGN.md 3/C05", "CrossHair symbolic execution (z3) of __read_block/__read_line on symbolic bytes (segment-absorption lemma) + cut-point exploration")
add("C08",
    "Bounded symbolic model checking: names/contents of symbolic code points flow through every public operation, "
    "__send_command, __prepare_args and __prepare_content; the bytes handed to sendall must parse, with a strict RFC "
    "5804 command parser, as exactly one command of the intended verb whose arguments decode to the caller's values, or "
    "nothing is written and Error is raised.",
    "DESIGN.md 3/C08", "CrossHair symbolic execution (z3) of the client's send path with symbolic strings vs strict RFC 5804 command parser")
add("C09",
    "Bounded symbolic model checking: every operation x status x response-code shape x text form x text pool through the "
    "real reply reader (success iff OK, False/None with errcode/errmsg iff NO, Error on BYE, next command still in step), "
    "and symbolic ASCII text through __read_line/__parse_error.",
    "DESIGN.md 3/C09", "CrossHair symbolic execution (z3) of __read_line/__read_response/__parse_error on replies from the RFC 5804 response grammar")
add("C14",
    "Bounded symbolic model checking of the emulated rename against a reference server: all initial states over a "
    "3-name pool, all old/new pairs, body variants, and every placement of OK/NO/BYE/silence/closed-connection over the "
    "up to five steps (lazily forced, so the fault tree is explored completely); the server's store before/after decides.",
    "DESIGN.md 3/C14", "CrossHair symbolic execution (z3) enumerating server states and per-step fault schedules of Client.renamescript vs reference server")
add("C17",
    "Bounded symbolic model checking: bodies (0-3 look-alike lines, LF/CRLF, final newline) and listings (1-3 look-alike "
    "names, active marker) held by the reference server and served in every encoding RFC 5804 allows; getscript and "
    "listscripts must return them exactly.",
    "DESIGN.md 3/C17", "CrossHair symbolic execution (z3) enumerating stored data and reply encodings served by a reference server to Client.getscript/listscripts")
add("C10",
    "Bounded symbolic model checking of call histories against a scripted handshake server whose behaviour at every "
    "step, capability sets before/after TLS and TLS outcome are symbolic and lazily forced; a monitor over the ordered "
    "log of writes on plain/TLS sockets enforces the three safety clauses; plus a static AST obligation on decorators.",
    "DESIGN.md 3/C10", "CrossHair symbolic execution (z3) enumerating call shapes and handshake fault schedules of Client.connect; write-log monitor; AST check")
add("C15",
    "Bounded symbolic model checking of whole sessions against an executable RFC 5804 reference server choosing "
    "encodings, NO outcomes and segmentation; after every step result, view of the state, leftover bytes and the "
    "server's protocol-violation log are checked.",
    "DESIGN.md 3/C15", "CrossHair symbolic execution (z3) enumerating operation sessions, reply encodings and cut points vs executable reference server")
add("C16",
    "Bounded symbolic model checking of mechanism selection (announced list x preferred mechanism x verdict, also after "
    "TLS) and of the AUTHENTICATE payload for a pool of credentials, decoded by reference decoders.",
    "DESIGN.md 3/C16", "CrossHair symbolic execution (z3) enumerating SASL configurations of Client.connect; payloads decoded by reference RFC 4616/7628 decoders (credential pool)",
    "Credentials come from a finite pool because base64 is a C boundary: this is the weakest use of the technique. ")
