from props._parser_plans import *


def plan(tier, seed):
    q = tier == "quick"
    conds = []
    if q:
        conds += t1_conds("c01", "full", 2, 12, timeout=200)
        conds += t1_conds("c01", "full", 2, 6, sep="crlf", timeout=200)
        conds += t1_conds("c01", "reduced", 4, 8, timeout=240)
        for ctx in range(1, len(P.CONTEXTS)):
            conds += t1_conds("c01", "reduced", 2, 1, ctx=ctx, timeout=120)
        conds += t2_conds("c01", 3, timeout=240, split=3)
        bounds = {"T1": "full vocabulary (%d tokens) N=2 with LF and with CRLF separators; reduced "
                        "vocabulary (%d tokens) N=4; %d context prefixes x reduced N=2"
                        % (len(P.VOCABS["full"]), len(P.VOCABS["reduced"]), len(P.CONTEXTS) - 1),
                  "T2": "every command, K=3 argument tokens from its own argument vocabulary"}
    else:
        conds += t1_conds("c01", "full", 3, 44, timeout=1500)
        conds += t1_conds("c01", "full", 3, 44, sep="crlf", timeout=1500)
        conds += t1_conds("c01", "reduced", 5, 13, timeout=1500)
        for ctx in range(1, len(P.CONTEXTS)):
            conds += t1_conds("c01", "full", 2, 4, ctx=ctx, timeout=600)
        conds += t2_conds("c01", 4, timeout=2400, split=6)
        conds += t2_conds("c01", 3, timeout=600, sep="crlf")
        bounds = {"T1": "full vocabulary N=3 (LF, CRLF); reduced vocabulary N=5; contexts x full N=2",
                  "T2": "every command, K=4 argument tokens (LF), K=3 (CRLF)"}
    conds += t4_conds("c01", timeout=280 if q else 1500, quick=q)
    bounds["T4"] = T4_BOUND
    conds += twins("c01")
    meta = dict(functions=PARSER_FUNCS, bounds=bounds,
                outside=["free token sequences longer than N", "string contents (C04/C06)",
                         "the lexer on arbitrary bytes (C02 lemmas)"],
                assumptions=COMMON_ASSUME, stubs=["LazyScript(bytearray) supplies the script"])
    from engine import e2
    return dict(conds=conds, meta=meta, obligations=e2.c01_obligations())
