from engine.xh import Cond
from harness import c12 as H

F = "harness/c12.py"
FUNCS = ["sievelib.factory.FiltersSet.addfilter", "updatefilter", "replacefilter", "removefilter", "enablefilter",
         "disablefilter", "movefilter", "getfilter", "is_filter_disabled", "filter_exists", "__create_filter", "__isdisabled",
         "sievelib.commands.Command.tosieve"]


def hist_conds(mode, L, timeout, extra_env=None, by_name=False, nn=3, nd=3, by_op1=False):
    out = []
    if by_op1:
        for op1 in range(H.NOPS):
            e = dict(extra_env or {})
            e.update({"C12_OP1LO": op1, "C12_OP1HI": op1 + 1})
            for c in hist_conds(mode, L, timeout, e, by_name, nn, nd):
                c.name += "-second%s" % H.OPS[op1]
                out.append(c)
        return out
    for op in range(H.NOPS):
        n1 = nn + 1 if nn == 3 else nn
        names = [(n, n + 1) for n in range(n1)] if by_name else [(0, n1)]
        for lo, hi in names:
            n2 = (nn + (2 if mode == "c12" else 1)) if nn == 3 else nn
            msplit = [(m, m + 1) for m in range(n2)] if (by_name and nn == 3 and H.OPS[op] in ("update", "replace")) else [(0, 99)]
            for mlo, mhi in msplit:
                env = {"C12_MODE": mode, "C12_OP0LO": op, "C12_OP0HI": op + 1, "C12_N0LO": lo, "C12_N0HI": hi,
                       "C12_NN": nn, "C12_ND": nd, "C12_M0LO": mlo, "C12_M0HI": mhi}
                env.update(extra_env or {})
                tag = "".join("-%s%s" % (k[-3:].lower(), v) for k, v in (extra_env or {}).items())
                out.append(Cond("%s-hist%d-p%d%d-%s-n%d-m%d%s" % (mode, L, nn, nd, H.OPS[op], lo, mlo, tag), F, "hist%d" % L,
                                env=env, timeout=timeout))
    return out


def plan(tier, seed):
    q = tier == "quick"
    if q:
        conds = hist_conds("c12", 2, 240, by_name=True, nd=2)
        conds += [c for c in hist_conds("c12", 3, 280, by_name=True, nn=2, nd=1) if "-add-" in c.name]
        b = ("all histories of length 2 over 3 names (+ a bytes alias; new names also a bytes name and the empty string) x 2 "
             "definitions; all histories of length 3 over 2 names that start with addfilter (every edit changes the content)")
    else:
        conds = hist_conds("c12", 3, 1500, by_name=True, nn=2, nd=1)
        conds += hist_conds("c12", 2, 900, by_name=True, nd=3)
        conds += [c for c in hist_conds("c12", 4, 1500, by_name=True, nn=2, nd=1, by_op1=True) if "-add-" in c.name]
        b = ("all histories of length 2 over 3 names (+ bytes alias, bytes and empty new names) x 3 definitions; all histories of "
             "length 3 over 2 names, every edit changing the content; histories of length 4 over 2 names that start with addfilter")
    conds.append(Cond("c12-vacuity", F, "hist2", env={"C12_MODE": "c12"}, timeout=90, vacuity=True))
    meta = dict(functions=FUNCS,
                bounds={"histories": b, "pool": "7 editing operations (getfilter / is_filter_disabled are probed for every filter after every step) x names "
                                                "(one non-ASCII with a space) x 3 definitions x up/down"},
                outside=["longer histories (no induction is claimed: the pre-state is reached by real operations)"],
                assumptions=["reference list model refs/ref_fs.py; a repeated disablefilter keeps the filter disabled and returns True; "
                             "is_filter_disabled of an unknown name is not compared as a value (only its truthiness, True)",
                             "FiltersSet only ever receives concrete values here: it runs with opcode interception off, the solver "
                             "enumerates the history space"],
                stubs=[])
    return dict(conds=conds, meta=meta)
