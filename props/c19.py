from engine.xh import Cond
from harness import c19 as H

F = "harness/c19.py"


def plan(tier, seed):
    q = tier == "quick"
    conds = []
    for f in range(H.NF):
        for vlen in ((1, 2) if q else (1, 2, 3)):
            conds.append(Cond("rb-sym-%s-len%d" % (H.FORMS[f][0], vlen), F, "rb_sym",
                              env={"C19_FLO": f, "C19_FHI": f + 1, "C19_VLEN": vlen}, timeout=200 if q else 1500))
    step = 1
    for f in range(0, H.NF, step):
        env = {"C19_FLO": f, "C19_FHI": f + step}
        if q:
            env.update({"C19_NPOOL": 8, "C19_NF2": 3, "C19_NACT": 3})
        conds.append(Cond("rb-pool-%s" % H.FORMS[f][0], F, "rb_pool", env=env, timeout=280 if q else 1500))
    conds.append(Cond("rb-vacuity", F, "rb_pool", env={"C19_FLO": 5, "C19_FHI": 6}, timeout=90, vacuity=True))
    meta = dict(functions=["sievelib.factory.FiltersSet.addfilter", "disablefilter", "getfilter", "get_filter_conditions",
                           "get_filter_actions", "get_filter_matchtype", "from_parser_result",
                           "sievelib.commands.*Command.args_as_tuple", "sievelib.tools.to_list", "sievelib.commands.Command.walk"],
                bounds={"rb_sym": "13 condition forms x negation, 6 action forms; one slot holds a symbolic str of length 1..%d "
                                  "(any code point except double quote, backslash, CR, LF, NUL; not starting with ' or :); "
                                  "original set and after disablefilter" % (2 if q else 3),
                        "rb_pool": "13 forms x negation x %d pool values x (no second condition | each form as second) x anyof/allof x "
                                   "6 action forms; original, disabled and reloaded-from-rendering sets%s" % (
                                       H.NPOOL, " (quick: first 8 pool values, 3 second-condition choices, 3 action forms)" if q else "")},
                outside=["values longer than the bound in rb_sym", "list-valued header conditions and list-valued action arguments "
                         "(outside the property's quantifier)"],
                assumptions=["a mismatch is attributed to the recorded comma defect only when the read-back equals the input with "
                             "every comma-containing value split at its commas (checked structurally), or for the negated header-name slot",
                             "reloaded sets whose rendering the parser rejects are C06's matter and are skipped here"],
                stubs=[])
    return dict(conds=conds, meta=meta)
