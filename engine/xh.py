"""Runner: CrossHair conditions in parallel, native replay, known findings, evidence.

Exit codes: 0 = no unlisted violation on everything explored; 1 = reproduced violation that
/verif/known_findings.jsonl does not list; 3 = machinery error (vacuous harness, counterexample
that does not reproduce natively, solver error).
"""
import concurrent.futures as cf
import hashlib
import json
import os
import re
import shutil
import subprocess
import sys
import time

VERIF = os.path.dirname(os.path.dirname(os.path.abspath(__file__)))
REPO = os.environ.get("VERIF_REPO", "/repo")
PY = os.path.join(VERIF, ".venv", "bin", "python")
NCPU = int(os.environ.get("VERIF_JOBS", str(os.cpu_count() or 4)))


class Cond:
    """One CrossHair condition = one harness function under one environment (partition)."""

    def __init__(self, name, file, func, env=None, timeout=120, vacuity=False, per_path=None):
        self.name = name
        self.file = file if os.path.isabs(file) else os.path.join(VERIF, file)
        self.func = func
        self.env = {k: str(v) for k, v in (env or {}).items()}
        self.timeout = timeout
        self.vacuity = vacuity
        self.per_path = per_path
        self.verdict = None
        self.message = ""
        self.wall = 0.0
        self.side = None


def _line_of(file, func):
    pat = re.compile(r"^def\s+%s\s*\(" % re.escape(func))
    for i, line in enumerate(open(file, encoding="utf-8"), 1):
        if pat.match(line):
            return i + 1
    raise SystemExit("harness function %s not found in %s" % (func, file))


def base_env(extra=None):
    env = dict(os.environ)
    env["PYTHONPATH"] = REPO + os.pathsep + VERIF
    env["PYTHONDONTWRITEBYTECODE"] = "1"
    env["PYTHONHASHSEED"] = "0"
    env["PYTHONWARNINGS"] = "ignore::SyntaxWarning"
    env.pop("SIEVELIB_VERIF", None)
    if extra:
        env.update(extra)
    return env


def _run_cond(c, workdir, pid):
    side = os.path.join(workdir, c.name + ".side")
    c.side = side
    env = base_env(c.env)
    env["XH_SIDE"] = side
    env["XH_PROPERTY"] = pid
    if c.vacuity:
        env["XH_VACUITY"] = "1"
    target = "%s:%d" % (c.file, _line_of(c.file, c.func))
    cmd = [PY, "-m", "crosshair", "check", "--report_all", "--analysis_kind", "PEP316",
           "--per_condition_timeout", str(c.timeout)]
    cmd += ["--per_path_timeout", str(c.per_path if c.per_path else max(30, c.timeout // 4))]
    cmd.append(target)
    t0 = time.time()
    try:
        p = subprocess.run(cmd, env=env, cwd=VERIF, capture_output=True, text=True,
                           timeout=c.timeout * 2 + 120)
        out, err, rc = p.stdout, p.stderr, p.returncode
    except subprocess.TimeoutExpired as e:
        out, err, rc = (e.stdout or ""), "outer timeout", -9
        if isinstance(out, bytes):
            out = out.decode("utf-8", "replace")
    c.wall = time.time() - t0
    c.message = (out.strip() + ("\n" + err.strip()[-600:] if rc not in (0, 1) else "")).strip()
    verdict = None
    for line in out.splitlines():
        m = re.match(r"^(.*?):(\d+): (error|info): (.*)$", line)
        if not m:
            continue
        kind, msg = m.group(3), m.group(4)
        if kind == "error":
            verdict = "refuted"
            break
        if msg.startswith("Confirmed over all paths"):
            verdict = "confirmed"
        elif msg.startswith("Not confirmed"):
            verdict = "not-exhausted"
        elif msg.startswith("Unable to meet precondition"):
            verdict = "no-path"
    if verdict is None:
        verdict = "error" if rc not in (0, 1) else "not-exhausted"
    c.verdict = verdict
    return c


def read_side(path):
    recs = []
    if path and os.path.exists(path):
        for line in open(path, encoding="ascii", errors="replace"):
            line = line.strip()
            if line:
                try:
                    recs.append(json.loads(line))
                except ValueError:
                    pass
    return recs


def native_replay(cases, workdir, tag):
    """cases: list of dict(file, f, args, env).  Returns per case: dict(ret, recs)."""
    if not cases:
        return []
    inp = os.path.join(workdir, "replay-%s.in.json" % tag)
    outp = os.path.join(workdir, "replay-%s.out.json" % tag)
    json.dump(cases, open(inp, "w"))
    p = subprocess.run([PY, "-m", "engine.replay", inp, outp], env=base_env(), cwd=VERIF,
                       capture_output=True, text=True, timeout=1800)
    if not os.path.exists(outp):
        raise RuntimeError("native replay crashed: " + p.stderr[-2000:])
    return json.load(open(outp))


def load_known_file():
    out = []
    p = os.path.join(VERIF, "known_findings.jsonl")
    if os.path.exists(p):
        for line in open(p, encoding="utf-8"):
            line = line.strip()
            if line and not line.startswith("#"):
                out.append(json.loads(line))
    return out


def run_property(pid, tier, conds, meta, obligations=None, seed=0):
    """conds: list of Cond (main ones and vacuity twins).  meta: dict with functions, bounds,
    assumptions, rule, level_note.  obligations: list of E2 results
    dict(name, status('discharged'|'refuted'|'unknown'), seconds, detail, sig?, witness?)."""
    t_start = time.time()
    workroot = os.environ.get("VERIF_WORKDIR") or os.path.join(VERIF, "work")
    workdir = os.path.join(workroot, "%s-%s" % (pid, tier))
    shutil.rmtree(workdir, ignore_errors=True)
    os.makedirs(workdir)
    replay_dir = os.path.join(workroot, "replays")
    os.makedirs(replay_dir, exist_ok=True)
    evdir = os.environ.get("VERIF_EVIDENCE_DIR") or os.path.join(VERIF, "evidence")
    os.makedirs(evdir, exist_ok=True)
    problems = []  # machinery errors
    violations = []
    known_lines = []

    with cf.ThreadPoolExecutor(max_workers=NCPU) as ex:
        list(ex.map(lambda c: _run_cond(c, workdir, pid), conds))

    # ---- gather side records
    paths = 0
    steps = 0
    outcomes = {}
    classes = set()
    fails, knowns, samples = [], {}, []
    known_hits = {}
    by_file = {}
    for c in conds:
        recs = read_side(c.side)
        for r in recs:
            k = r.get("k")
            if k == "tick":
                if not c.vacuity:
                    paths += 1
                    steps += int(r.get("n", 0)) + 1
                    outcomes[r.get("o")] = outcomes.get(r.get("o"), 0) + 1
                    if "c" in r:
                        classes.add(str(r["c"]))
            elif k == "fail" and not c.vacuity:
                fails.append((c, r))
            elif k == "known":
                knowns.setdefault(r["sig"], (c, r))
                known_hits[r["sig"]] = known_hits.get(r["sig"], 0) + 1
            elif k == "known+":
                known_hits[r["sig"]] = known_hits.get(r["sig"], 0) + 1
            elif k == "sample" and not c.vacuity:
                samples.append((c, r))

    cond_report = []
    for c in conds:
        cond_report.append({"name": c.name, "verdict": c.verdict, "wall_s": round(c.wall, 1),
                            "vacuity_twin": c.vacuity})
        if c.verdict == "error":
            problems.append("condition %s: crosshair error: %s" % (c.name, c.message[-800:]))
        if c.vacuity:
            if c.verdict != "refuted":
                problems.append("vacuity twin %s was not refuted (%s): harness reaches no "
                                "passing path" % (c.name, c.verdict))
        elif c.verdict == "no-path":
            problems.append("condition %s: unable to meet precondition / all paths aborted"
                            % c.name)

    # ---- replay failures natively
    fail_cases = []
    seen_sig = {}
    for c, r in fails:
        n = seen_sig.get(r["sig"], 0)
        if n >= 3:
            continue
        seen_sig[r["sig"]] = n + 1
        fail_cases.append({"file": c.file, "f": r["f"], "args": r["args"], "env": c.env,
                           "sig": r["sig"], "detail": r.get("detail"), "cond": c.name})
    res = native_replay(fail_cases, workdir, "fail")
    reproduced_conds = set()
    for case, rr in zip(fail_cases, res):
        sigs = [x.get("sig") for x in rr["recs"] if x.get("k") in ("fail",)]
        if rr["ret"] is False and sigs:
            reproduced_conds.add(case["cond"])
            nat = [x for x in rr["recs"] if x.get("k") == "fail"][0]
            h = hashlib.sha1(json.dumps([case["f"], case["args"]], sort_keys=True)
                             .encode()).hexdigest()[:12]
            rp = os.path.join(replay_dir, "%s-%s.json" % (pid, h))
            json.dump({"property": pid, "file": case["file"], "f": case["f"],
                       "args": case["args"], "env": case["env"], "signature": nat["sig"],
                       "detail": nat.get("detail")}, open(rp, "w"), indent=1)
            if not any(v["sig"] == nat["sig"] for v in violations):
                violations.append({"sig": nat["sig"], "replay": rp, "detail": nat.get("detail")})
    for c in conds:
        if not c.vacuity and c.verdict == "refuted" and c.name not in reproduced_conds:
            # a counterexample that native execution does not reproduce: model/harness error
            mine = [fc for fc in fail_cases if fc["cond"] == c.name]
            problems.append("condition %s refuted by CrossHair but no recorded case reproduces "
                            "natively (%d recorded): %s" % (c.name, len(mine), c.message[-600:]))

    # ---- samples: native validation of passing paths on path-concrete inputs
    per_func = {}
    sample_cases = []
    max_per = 12 if tier == "quick" else 40
    for c, r in samples:
        key = (c.func,)
        if per_func.get(key, 0) >= max_per:
            continue
        per_func[key] = per_func.get(key, 0) + 1
        sample_cases.append({"file": c.file, "f": r["f"], "args": r["args"], "env": c.env,
                             "show": r.get("show"), "cond": c.name})
    res = native_replay(sample_cases, workdir, "sample")
    validated = 0
    shown = []
    for case, rr in zip(sample_cases, res):
        if rr["ret"] is True:
            validated += 1
            if len(shown) < 12 and case.get("show") is not None:
                shown.append(case["show"])
        else:
            nat = [x for x in rr["recs"] if x.get("k") == "fail"]
            sig = nat[0]["sig"] if nat else "NATIVE-MISMATCH"
            problems.append("path reported passing under CrossHair fails natively (%s, %s): %s"
                            % (case["f"], sig, json.dumps(case["args"])[:300]))

    # ---- positive witnesses: concrete inputs (the interesting values of each harness) run natively
    wcases = [dict(file=os.path.join(VERIF, w["file"]), f=w["f"], args=w["args"], env=w.get("env", {}))
              for w in meta.get("witnesses", [])]
    res = native_replay(wcases, workdir, "witness")
    for case, rr in zip(wcases, res):
        nat = [x for x in rr["recs"] if x.get("k") == "fail"]
        if rr["ret"] is True:
            validated += 1
        elif nat:
            h = hashlib.sha1(json.dumps([case["f"], case["args"]], sort_keys=True).encode()).hexdigest()[:12]
            rp = os.path.join(replay_dir, "%s-%s.json" % (pid, h))
            json.dump({"property": pid, "file": case["file"], "f": case["f"], "args": case["args"], "env": case["env"],
                       "signature": nat[0]["sig"], "detail": nat[0].get("detail")}, open(rp, "w"), indent=1)
            if not any(v["sig"] == nat[0]["sig"] for v in violations):
                violations.append({"sig": nat[0]["sig"], "replay": rp, "detail": nat[0].get("detail")})
        elif not any(x.get("k") == "known" for x in rr["recs"]):
            problems.append("witness %s%r did not run: %r" % (case["f"], case["args"], rr["ret"]))

    # ---- known findings: every listed open entry of this property is re-demonstrated natively
    listed = [e for e in load_known_file() if e.get("property") == pid]
    open_entries = [e for e in listed if e.get("status") == "open"]
    kcases, kmeta = [], []
    for e in open_entries:
        w = e.get("witness")
        if w and w.get("f"):
            kcases.append({"file": os.path.join(VERIF, w["file"]), "f": w["f"],
                           "args": w["args"], "env": w.get("env", {})})
            kmeta.append(e)
    for sig, (c, r) in knowns.items():
        kcases.append({"file": c.file, "f": r["f"], "args": r["args"], "env": c.env})
        kmeta.append({"signature": sig, "what": None, "_seen": True})
    res = native_replay(kcases, workdir, "known")
    printed = set()
    table = {e["signature"]: e for e in open_entries}
    for e, rr in zip(kmeta, res):
        sig = e["signature"]
        got = [x.get("sig") for x in rr["recs"] if x.get("k") == "known"]
        if sig in got:
            if sig not in printed:
                printed.add(sig)
                what = table.get(sig, {}).get("what") or sig
                known_lines.append("KNOWN-FINDING: property=%s %s [%s]" % (pid, what, sig))
        elif e.get("_seen"):
            problems.append("known-finding witness found symbolically does not reproduce "
                            "natively: %s" % sig)
    not_reproducing = [e["signature"] for e in open_entries if e["signature"] not in printed]

    # ---- E2 obligations
    obligations = obligations or []
    n_obl = len(obligations)
    n_dis = 0
    e2_time = 0.0
    for o in obligations:
        e2_time += o.get("seconds", 0.0)
        if o["status"] == "discharged":
            n_dis += 1
        elif o["status"] == "known":
            n_dis += 1
            sig = o["sig"]
            if sig not in printed:
                printed.add(sig)
                known_lines.append("KNOWN-FINDING: property=%s %s [%s]"
                                   % (pid, table.get(sig, {}).get("what") or sig, sig))
        elif o["status"] == "refuted":
            rp = os.path.join(replay_dir, "%s-e2-%s.json" % (
                pid, hashlib.sha1(o["name"].encode()).hexdigest()[:10]))
            json.dump({"property": pid, "e2": o["name"], "signature": o.get("sig"),
                       "witness": o.get("witness"), "detail": o.get("detail")},
                      open(rp, "w"), indent=1)
            violations.append({"sig": o.get("sig", o["name"]), "replay": rp,
                               "detail": o.get("detail")})
        else:
            problems.append("solver obligation %s inconclusive: %s" % (o["name"], o.get("detail")))

    main_conds = [c for c in conds if not c.vacuity]
    exhaustive = bool(main_conds) and all(c.verdict == "confirmed" for c in main_conds)
    if not main_conds:
        exhaustive = n_obl > 0 and n_dis == n_obl
    wall = time.time() - t_start
    if not shown:
        shown = [c["show"] for c in sample_cases[:8] if c.get("show") is not None]
    if not shown:
        shown = [o["name"] for o in obligations[:8]] or ["(no sample recorded)"]
    cov = {
        "states": max(paths, n_obl),
        "transitions": max(steps, n_obl),
        "traces_validated_against_impl": validated + len(printed),
        "samples": shown,
        "evaluations": max(paths, n_obl),
        "distinct_nontrivial": len(classes) if classes else outcomes.get("ok", 0) + outcomes.get("known", 0),
        "rule": meta.get("rule", "one evaluation = one symbolic execution path through the "
                                 "harness (a set of concrete inputs that take the same branches); "
                                 "non-trivial = the path reached the property's assertion"),
        "exhaustive": exhaustive,
        "path_outcomes": outcomes,
        "conditions": cond_report,
        "conditions_confirmed_exhaustive": sum(1 for c in main_conds if c.verdict == "confirmed"),
        "conditions_not_exhausted": [c.name for c in main_conds if c.verdict == "not-exhausted"],
        "obligations": n_obl,
        "discharged": n_dis,
        "solver_seconds_e2": round(e2_time, 2),
        "crosshair_cpu_wall_s": round(sum(c.wall for c in conds), 1),
        "e2_obligations": [{k: o.get(k) for k in ("name", "status", "seconds", "detail")}
                           for o in obligations],
        "functions_encoded": meta.get("functions", []),
        "bounds": meta.get("bounds", {}),
        "outside_bounds": meta.get("outside", []),
        "stubs": meta.get("stubs", []),
        "known_findings_seen": sorted(printed),
        "known_findings_hits": known_hits,
        "listed_findings_not_reproducing": not_reproducing,
        "machinery_problems": problems,
        "engine": "CrossHair 0.0.110 (symbolic execution of /repo's bytecode, z3 %s) + direct z3 "
                  "regex queries" % _z3v(),
    }
    ev = {
        "property_id": pid,
        "tier": tier,
        "seed": seed,
        "level": "model_checking",
        "coverage": cov,
        "assumptions": meta.get("assumptions", []),
        "wall_s": round(wall, 1),
        "violations": len(violations),
    }
    json.dump(ev, open(os.path.join(evdir, pid + ".json"), "w"), indent=1, ensure_ascii=True)

    for l in known_lines:
        print(l)
    for c in main_conds:
        print("  [%s] %-34s %-14s %6.1fs" % (pid, c.name, c.verdict, c.wall))
    print("[%s %s] paths=%d conds=%d confirmed=%d obligations=%d/%d validated=%d wall=%.0fs"
          % (pid, tier, paths, len(main_conds), cov["conditions_confirmed_exhaustive"],
             n_dis, n_obl, validated, wall))
    for v in violations:
        print("  violation signature: %s" % v["sig"])
        if v.get("detail") is not None:
            print("  detail: %s" % json.dumps(v["detail"])[:600])
        print("VIOLATION property=%s replay=%s" % (pid, v["replay"]))
    if violations:
        return 1
    if problems:
        for p in problems:
            print("MACHINERY-ERROR: " + p, file=sys.stderr)
        return 3
    return 0


def _z3v():
    try:
        import z3
        return z3.get_version_string()
    except Exception:
        return "?"
