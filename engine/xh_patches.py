"""Work-arounds for defects of CrossHair 0.0.110's value models that the harnesses ran into.
Imported by engine.side, i.e. by every harness, before any condition is analysed.

1. simplestructs.SequenceConcatenation.__eq__ evaluates `second == other[firstlen:]`; when the
   two sides are sequence models of different classes (SymbolicList vs SliceView, list vs
   SliceView -- e.g. the empty remainder of a slice) that comparison answers False, so
   (v + 'x')[:-1] == v came out False for every v (probe: refuted with v = '\\x00'; natively
   True).  Replaced by a length check followed by an element-wise comparison.
Every counterexample is replayed natively in any case; the patch only removes false ones.
"""
try:
    from crosshair import simplestructs as _ss
    from crosshair.tracers import NoTracing as _NoTracing
except Exception:  # pragma: no cover
    _ss = None


def _plain(x):
    return type(x) in (list, tuple)


def _seq_eq(x, y):
    with _NoTracing():
        both_plain = _plain(x) and _plain(y)
    if both_plain:
        return list(x) == list(y)
    # SymbolicList == SliceView (both empty) and list == SliceView answer False in 0.0.110:
    # compare by length and element-wise instead of trusting the mixed-type __eq__
    n = x.__len__()
    if n != y.__len__():
        return False
    i = 0
    while i < n:
        if x[i] != y[i]:
            return False
        i += 1
    return True


def _concat_eq(self, other):
    with _NoTracing():
        if not hasattr(other, "__len__"):
            return False
        first, second = self._first, self._second
    if self.__len__() != other.__len__():
        return False
    firstlen = first.__len__()
    return _seq_eq(first, other[:firstlen]) and _seq_eq(second, other[firstlen:])


if _ss is not None and not getattr(_ss.SequenceConcatenation, "_verif_patched", False):
    _ss.SequenceConcatenation.__eq__ = _concat_eq
    _ss.SequenceConcatenation._verif_patched = True


# ---------------------------------------------------------------------------------------------
# 2. '"%s"' % value  with a symbolic str realises the value (CrossHair 0.0.110's ModuloInterceptor
#    only defers to str.__mod__, which calls str() on the argument).  A realised value makes the solver enumerate strings one by one, so no condition
#    through sievelib's '"%s"' % v sites ever finishes.  %-formatting with only %s / %d / %%
#    conversions is done by concatenation instead (which stays symbolic); anything else falls back
#    to the native operator.
try:
    import re as _re
    from crosshair.core import register_opcode_patch as _register_opcode_patch
    from crosshair.tracers import (TracingModule as _TracingModule, frame_stack_read as _fsr,
                                   frame_stack_write as _fsw)
    from crosshair.opcode_intercept import BINARY_OP as _BINARY_OP, frame_op_arg as _frame_op_arg
    _HAVE_OPS = True
except Exception:  # pragma: no cover
    _HAVE_OPS = False

_CONV = None if not _HAVE_OPS else _re.compile(r"%(%|s|d)")


class _PercentFmt:
    def __init__(self, fmt):
        self.fmt = fmt

    def __mod__(self, other):
        fmt = self.fmt
        if _re.search(r"%(?!%|s|d)", fmt) or isinstance(other, dict):
            return fmt.__mod__(other)
        args = other if isinstance(other, tuple) else (other,)
        out = ""
        pos = 0
        ai = 0
        for m in _CONV.finditer(fmt):
            out = out + fmt[pos:m.start()]
            pos = m.end()
            c = m.group(1)
            if c == "%":
                out = out + "%"
                continue
            if ai >= len(args):
                raise TypeError("not enough arguments for format string")
            a = args[ai]
            ai += 1
            if c == "s":
                out = out + (a if isinstance(a, str) else str(a))
            else:
                out = out + str(int(a))
        if ai != len(args):
            raise TypeError("not all arguments converted during string formatting")
        return out + fmt[pos:]


class _PercentFmtBytes:
    """same for bytes formats (b"{%d+}%s%s" % (n, CRLF, data)): %s takes bytes-like operands"""

    def __init__(self, fmt):
        self.fmt = fmt

    def __mod__(self, other):
        fmt = self.fmt
        if _re.search(rb"%(?!%|s|d)", fmt) or isinstance(other, dict):
            return fmt.__mod__(other)
        args = other if isinstance(other, tuple) else (other,)
        out = b""
        pos = 0
        ai = 0
        for m in _re.finditer(rb"%(%|s|d)", fmt):
            out = out + fmt[pos:m.start()]
            pos = m.end()
            c = m.group(1)
            if c == b"%":
                out = out + b"%"
                continue
            if ai >= len(args):
                raise TypeError("not enough arguments for format string")
            a = args[ai]
            ai += 1
            if c == b"s":
                out = out + a
            else:
                out = out + str(int(a)).encode("ascii")
        if ai != len(args):
            raise TypeError("not all arguments converted during bytes formatting")
        return out + fmt[pos:]


if _HAVE_OPS:
    class VerifModuloInterceptor(_TracingModule):
        opcodes_wanted = frozenset([_BINARY_OP])

        def trace_op(self, frame, codeobj, codenum):
            left = _fsr(frame, -2)
            if type(left).__name__ == "DeoptimizedPercentFormattingStr":
                left = left.value          # CrossHair's own (realising) interceptor ran first
            if type(left) is str:
                if _frame_op_arg(frame) != 6:      # NB_REMAINDER
                    return
                _fsw(frame, -2, _PercentFmt(left))
            elif type(left) is bytes:
                if _frame_op_arg(frame) != 6:
                    return
                _fsw(frame, -2, _PercentFmtBytes(left))

    try:
        _register_opcode_patch(VerifModuloInterceptor())
    except Exception:  # already registered in this process
        pass


# ---------------------------------------------------------------------------------------------
# 3. `needle in symbolic_bytes` goes to AbcString.__contains__, which realises the whole value
#    (`... in self.data`); with a realised value the solver enumerates byte strings one by one.
#    Replaced by a search over the symbolic byte sequence.
try:
    from crosshair.libimpl import builtinslib as _bl
    _HAVE_BL = True
except Exception:  # pragma: no cover
    _HAVE_BL = False


def _bytes_contains(self, other):
    if isinstance(other, int):
        needle = [other]
    else:
        with _NoTracing():
            if isinstance(other, (bytes, bytearray)):
                needle = list(other)
            else:
                needle = None
        if needle is None:
            needle = list(other)
    hay = self.inner
    n = hay.__len__()
    m = len(needle)
    if m == 0:
        return True
    i = 0
    while i + m <= n:
        k = 0
        while k < m and hay[i + k] == needle[k]:
            k += 1
        if k == m:
            return True
        i += 1
    return False


if _HAVE_BL and not getattr(_bl.BytesLike, "_verif_patched", False):
    _bl.BytesLike.__contains__ = _bytes_contains
    _bl.BytesLike._verif_patched = True
