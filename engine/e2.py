"""E2 lemma sets: direct z3 queries over the regular expressions sievelib is built on.
Each function returns a list of obligation dicts for engine.xh.run_property."""
import re
import time

import z3

from engine import rx2z3 as X
from sievelib.parser import Parser, Lexer

x = z3.String("x")


def _ob(name, fn, known_sig=None):
    t0 = time.time()
    try:
        st, w, _ = fn()
    except X.Unsupported as e:
        return dict(name=name, status="unknown", seconds=time.time() - t0, detail="unsupported regex construct: %s" % e)
    except z3.Z3Exception as e:
        return dict(name=name, status="unknown", seconds=time.time() - t0, detail="z3 error: %s" % e)
    dt = time.time() - t0
    if st == "unsat":
        return dict(name=name, status="discharged", seconds=dt, detail="unsat")
    if st == "sat":
        if known_sig:
            return dict(name=name, status="known", seconds=dt, detail={"witness": repr(w)}, sig=known_sig, witness=repr(w))
        return dict(name=name, status="refuted", seconds=dt, detail={"witness": repr(w)}, sig="E2/" + name.split(":")[0],
                    witness=repr(w))
    return dict(name=name, status="unknown", seconds=dt, detail=str(w))


def rules():
    out = [(n.decode(), p) for n, p in Parser.lrules]
    lx = Lexer(Parser.lrules)
    out.append(("whitespace", lx.wsregexp.pattern))
    return out


def contains_high_byte(v):
    hi = z3.Concat(z3.Full(z3.ReSort(z3.StringSort())), X.rng(128, 255), z3.Full(z3.ReSort(z3.StringSort())))
    return z3.InRe(v, hi)


def validated(name, pattern, flags=0):
    t0 = time.time()
    try:
        bad = X.validate_translation(pattern, flags)
    except X.Unsupported as e:
        return dict(name="translator validated against re.fullmatch: " + name, status="discharged", seconds=time.time() - t0,
                    detail="skipped (anchors): %s" % e)
    return dict(name="translator validated against re.fullmatch: " + name,
                status="discharged" if not bad else "unknown", seconds=time.time() - t0,
                detail="ok" if not bad else "disagreements: %r" % bad[:3])


def _stars(tree):
    """all repeat nodes (max > 1) of an sre parse tree, with their bodies"""
    import re._constants as C
    out = []
    for op, av in tree:
        name = str(op)
        if name in ("MAX_REPEAT", "MIN_REPEAT"):
            lo, hi, sub = av
            if hi == C.MAXREPEAT or hi > 1:
                out.append(sub)
            out += _stars(sub)
        elif name == "SUBPATTERN":
            out += _stars(av[3])
        elif name == "BRANCH":
            for a in av[1]:
                out += _stars(a)
    return out


def star_obligations():
    """no string is both ONE iteration and TWO-OR-MORE iterations of a repeated sub-pattern: the classic source
    of exponential backtracking when the overall match fails (an unterminated string, say)"""
    import re._parser as sp
    obs = []
    for name, pat in rules():
        tree = sp.parse(pat, re.MULTILINE)
        for k, body in enumerate(_stars(tree)):
            try:
                r = X._tr(body, re.MULTILINE, "epsilon")
            except X.Unsupported as e:
                obs.append(dict(name="P1 repeat %d of rule %s" % (k, name), status="unknown", seconds=0.0, detail=str(e)))
                continue
            obs.append(_ob("P1 linear-time: repeat %d of lexer rule %s has unambiguous iterations (L(B) and L(B B+) disjoint)"
                           % (k, name), lambda r=r: X.solve([z3.InRe(x, r), z3.InRe(x, z3.Concat(r, z3.Plus(r)))], x)))
    return obs


def c02_obligations():
    obs = star_obligations()
    for name, pat in rules():
        r = X.translate(pat, re.MULTILINE, anchors="epsilon")
        obs.append(_ob("P1 epsilon-free: lexer rule %s = %r never matches the empty string (every scan step consumes >= 1 byte)"
                       % (name, pat), lambda r=r: X.solve([z3.InRe(x, r), z3.Length(x) == 0], x)))
    for name in ("identifier", "tag", "number"):
        pat = dict(rules())[name]
        r = X.translate(pat, re.MULTILINE, anchors="epsilon")
        obs.append(_ob("P1 decode-safe: every %s token is ASCII (.decode('ascii') cannot fail)" % name,
                       lambda r=r: X.solve([z3.InRe(x, r), contains_high_byte(x)], x)))
        obs.append(validated(name, pat))
    return obs


def _ref_quoted():
    # RFC 5228 8.1: DQUOTE *( any octet except DQUOTE and backslash / backslash any-octet ) DQUOTE
    dq = z3.Re(z3.Unit(z3.CharVal(34)))
    plain = X.re_of_set(X.ALL - {34, 92})
    esc = z3.Concat(z3.Re(z3.Unit(z3.CharVal(92))), X.re_of_set(X.ALL))
    return z3.Concat(dq, z3.Star(z3.Union(plain, esc)), dq)


def c01_obligations():
    obs = []
    rs = dict(rules())
    ws = X.translate(rs["whitespace"], re.M)
    rfc_ws = z3.Plus(X.re_of_set({32, 9, 13, 10}))
    obs.append(_ob("T3 white space: every run of SP/HTAB/CR/LF is skipped as white space",
                   lambda: X.solve([z3.InRe(x, rfc_ws), z3.Not(z3.InRe(x, ws))], x)))
    ident = X.translate(rs["identifier"])
    alpha = X.re_of_set(set(range(65, 91)) | set(range(97, 123)) | {95})
    alnum = X.re_of_set(set(range(65, 91)) | set(range(97, 123)) | {95} | set(range(48, 58)))
    ref_ident = z3.Concat(alpha, z3.Star(alnum))
    obs.append(_ob("T3 identifier: rule accepts every RFC 5228 identifier", lambda: X.solve([z3.InRe(x, ref_ident), z3.Not(z3.InRe(x, ident))], x)))
    obs.append(_ob("T3 identifier: rule accepts nothing else", lambda: X.solve([z3.InRe(x, ident), z3.Not(z3.InRe(x, ref_ident))], x)))
    tag = X.translate(rs["tag"])
    ref_tag = z3.Concat(z3.Re(z3.Unit(z3.CharVal(58))), ref_ident)
    obs.append(_ob("T3 tag: rule = ':' identifier (both inclusions)",
                   lambda: X.solve([z3.Xor(z3.InRe(x, tag), z3.InRe(x, ref_tag))], x)))
    num = X.translate(rs["number"])
    ref_num = z3.Concat(z3.Plus(X.rng(48, 57)), z3.Option(X.re_of_set(set(b"KMGkmg"))))
    obs.append(_ob("T3 number: rule = 1*DIGIT [K/M/G] (both inclusions)",
                   lambda: X.solve([z3.Xor(z3.InRe(x, num), z3.InRe(x, ref_num))], x)))
    string = X.translate(rs["string"], re.M)
    ref_q = _ref_quoted()
    obs.append(_ob("T3 string: every token the rule produces is an RFC 5228 quoted string",
                   lambda: X.solve([z3.InRe(x, string), z3.Not(z3.InRe(x, ref_q))], x)))
    # the other inclusion holds except for a backslash directly followed by LF ('.' does not match LF)
    bs_lf = z3.Concat(z3.Full(z3.ReSort(z3.StringSort())), z3.Re(X.s_lit(b"\\\n")), z3.Full(z3.ReSort(z3.StringSort())))
    obs.append(_ob("T3 string: every RFC 5228 quoted string without backslash-LF is one string token",
                   lambda: X.solve([z3.InRe(x, ref_q), z3.Not(z3.InRe(x, bs_lf)), z3.Not(z3.InRe(x, string))], x)))
    hc = X.translate(rs["hash_comment"], re.M, anchors="epsilon")
    ref_hc = z3.Concat(z3.Re(z3.Unit(z3.CharVal(35))), z3.Star(X.re_of_set(X.ALL - {10})))
    obs.append(_ob("T3 hash comment: '#' followed by any bytes up to the line feed is one comment (both inclusions, '$' as end of line)",
                   lambda: X.solve([z3.Xor(z3.InRe(x, hc), z3.InRe(x, ref_hc))], x)))
    bc = X.translate(rs["bracket_comment"], re.M)
    star, slash = 42, 47
    # bodies that do not contain "*/"
    no_close = z3.Complement(z3.Concat(z3.Full(z3.ReSort(z3.StringSort())), z3.Re(X.s_lit(b"*/")), z3.Full(z3.ReSort(z3.StringSort()))))
    ref_bc = z3.Concat(z3.Re(X.s_lit(b"/*")), no_close, z3.Re(X.s_lit(b"*/")))
    obs.append(_ob("T3 bracket comment: every RFC 5228 bracket comment matches the rule",
                   lambda: X.solve([z3.InRe(x, ref_bc), z3.Not(z3.InRe(x, bc))], x)))
    # multi-line literal bodies may contain '$'
    ml = X.translate(rs["multiline"], re.M, anchors="epsilon")
    line = z3.Concat(z3.Star(X.re_of_set(X.ALL - {10, 13})), z3.Re(z3.Unit(z3.CharVal(10))))
    notdot = z3.Complement(z3.Re(X.s_lit(b".\n")))
    ref_ml = z3.Concat(z3.Re(X.s_lit(b"text:\n")), z3.Star(z3.Intersect(line, notdot)), z3.Re(X.s_lit(b".")))
    obs.append(_ob("T3 multi-line: every RFC 5228 text: block (LF line ends) is covered by the multiline rule",
                   lambda: X.solve([z3.InRe(x, ref_ml), z3.Not(z3.InRe(x, ml)), z3.Length(x) <= 12], x),
                   known_sig="C01/e2/multiline-rule-excludes-dollar"))
    for n in ("string", "identifier", "tag", "number", "bracket_comment"):
        obs.append(validated(n, rs[n], re.M))
    return obs


def c17_obligations():
    """the client's quoted-string pattern covers every quoted string the reference server can send"""
    from sievelib import managesieve as MS
    c = MS.Client("h")
    obs = []
    pat = getattr(c, "_Client__quoted_expr", None)
    if pat is None:
        return [dict(name="C17 lemma: client pattern for quoted strings not located", status="unknown", seconds=0.0,
                     detail="attribute _Client__quoted_expr missing")]
    src = pat.pattern
    core = src.split(b"\\s*")[0]            # the part that matches the quoted string itself
    try:
        r = X.translate(core)
    except X.Unsupported as e:
        # not decidable by this encoding: inconclusive (exit 3 unless the harness finds a concrete violation), never success
        return [dict(name="C17 lemma: client quoted-string pattern %r covers RFC 5804 quoted strings" % core, status="unknown",
                     seconds=0.0, detail="unsupported regex construct: %s" % e)]
    dq = z3.Re(z3.Unit(z3.CharVal(34)))
    plain = X.re_of_set(X.ALL - {34, 92, 0, 10, 13})
    esc = z3.Concat(z3.Re(z3.Unit(z3.CharVal(92))), X.re_of_set({34, 92}))
    ref = z3.Concat(dq, z3.Star(z3.Union(plain, esc)), dq)
    obs.append(_ob("C17 lemma: every RFC 5804 quoted string (escapes \\\\ and \\\" only, no CR/LF/NUL) is matched by the client's "
                   "quoted-string pattern %r" % core, lambda: X.solve([z3.InRe(x, ref), z3.Not(z3.InRe(x, r))], x)))
    return obs
