"""Side channel between a harness running under CrossHair and the runner.

A harness function is one CrossHair condition (PEP316 docstring).  Its body is run through
`run(body, args)`, which

* counts the path (one tick per invocation),
* turns an escaped exception of the harness/oracle itself into a recorded failure,
* lets the body report a failing case by raising `Violation(signature, detail)`;
  if the signature is listed `open` in /verif/known_findings.jsonl the case is recorded as
  `known` (with its concrete arguments as a witness) and the path counts as passing, otherwise
  it is recorded as `fail` and the condition is refuted,
* lets the body say `Skip` for inputs the property text puts outside its claim.

Everything written here is concrete: arguments are deep-realised first, and the write happens
with tracing switched off, so the record is what a native replay will see.
"""
import json
import os
import sys
import traceback

try:
    from crosshair.core import deep_realize
    from crosshair.tracers import NoTracing, is_tracing
except Exception:  # pragma: no cover - native use without crosshair installed
    deep_realize = lambda x: x  # noqa: E731
    NoTracing = None
    is_tracing = lambda: False  # noqa: E731

from engine import xh_patches  # noqa: F401,E402

VERIF = os.path.dirname(os.path.dirname(os.path.abspath(__file__)))
_SIDE_PATH = os.environ.get("XH_SIDE")
_FD = None
if _SIDE_PATH:
    _FD = os.open(_SIDE_PATH, os.O_WRONLY | os.O_CREAT | os.O_APPEND, 0o644)
VACUITY = os.environ.get("XH_VACUITY") == "1"
SAMPLE_EVERY = int(os.environ.get("XH_SAMPLE_EVERY", "40"))
PROPERTY = os.environ.get("XH_PROPERTY", "")

_counts = {"path": 0, "samples": 0}
_seen_known = set()


def _detail(v):
    """detail may be a callable so that building it (repr of symbolic values realises them) only
    happens for the cases that are actually recorded"""
    d = v.detail
    if callable(d):
        d = d()
    return jsonable(realize(d))


def _concrete(info, args):
    """Concrete arguments standing for the current path (body-supplied, else realised)."""
    if "concrete" in info:
        return jsonable(realize(info["concrete"]))
    return jsonable(realize(args))


class Violation(Exception):
    def __init__(self, signature, detail=None):
        Exception.__init__(self, signature)
        self.signature = signature
        self.detail = detail


class Skip(Exception):
    """Input is outside the property's claim (reason in args[0])."""


def _load_known():
    known = {}
    p = os.path.join(VERIF, "known_findings.jsonl")
    if os.path.exists(p):
        for line in open(p, encoding="utf-8"):
            line = line.strip()
            if not line or line.startswith("#"):
                continue
            e = json.loads(line)
            if e.get("status") == "open":
                known[e["signature"]] = e
    return known


KNOWN = _load_known()


def jsonable(x):
    if isinstance(x, (bytes, bytearray)):
        return {"__bytes__": bytes(x).hex()}
    if isinstance(x, tuple):
        return {"__tuple__": [jsonable(i) for i in x]}
    if isinstance(x, list):
        return [jsonable(i) for i in x]
    if isinstance(x, dict):
        return {str(k): jsonable(v) for k, v in x.items()}
    if isinstance(x, (str, int, bool, float)) or x is None:
        return x
    return repr(x)


def unjson(x):
    if isinstance(x, dict):
        if "__bytes__" in x:
            return bytes.fromhex(x["__bytes__"])
        if "__tuple__" in x:
            return tuple(unjson(i) for i in x["__tuple__"])
        return {k: unjson(v) for k, v in x.items()}
    if isinstance(x, list):
        return [unjson(i) for i in x]
    return x


def emit(rec):
    """Write one concrete record; safe under tracing."""
    if _FD is None:
        return
    if is_tracing():
        with NoTracing():
            _emit(rec)
    else:
        _emit(rec)


def _plain(x):
    """Called with tracing off: drop anything that is still symbolic."""
    t = type(x)
    if t in (str, int, bool, float) or x is None:
        return x
    if t is list:
        return [_plain(i) for i in x]
    if t is dict:
        return {k: _plain(v) for k, v in x.items() if type(k) is str}
    return None


def _emit(rec):
    rec = _plain(rec)
    data = (json.dumps(rec, ensure_ascii=True) + "\n").encode("ascii")
    os.write(_FD, data)


def realize(x):
    if is_tracing():
        return deep_realize(x)
    return x


def notrace(fn, *a, **k):
    """Run fn natively (oracles on path-concrete values)."""
    if is_tracing():
        with NoTracing():
            return fn(*a, **k)
    return fn(*a, **k)


def site_of(exc):
    """Innermost sievelib frame of an exception: module.function."""
    tb = traceback.extract_tb(exc.__traceback__)
    site = None
    for fr in tb:
        fn = fr.filename.replace("\\", "/")
        if "/sievelib/" in fn and "/tests/" not in fn:
            site = "%s.%s" % (os.path.basename(fn)[:-3], fr.name)
    return site or "?"


def run(func_name, body, args, steps=None):
    """Run one harness body.  Returns the bool that is the CrossHair postcondition."""
    _counts["path"] += 1
    npath = _counts["path"]
    info = {}
    try:
        try:
            body(info=info, **args)
            outcome = "ok"
        except Skip as e:
            outcome = "skip"
            info["skip"] = str(e.args[0]) if e.args else ""
        except Violation as v:
            if v.signature in KNOWN:
                outcome = "known"
                # one concrete witness per signature and process: realising on every such
                # path would make the solver enumerate values one by one
                if v.signature not in _seen_known:
                    _seen_known.add(v.signature)
                    emit(
                        {
                            "k": "known",
                            "f": func_name,
                            "args": _concrete(info, args),
                            "sig": v.signature,
                            "detail": _detail(v),
                        }
                    )
                else:
                    emit({"k": "known+", "sig": v.signature})
            else:
                emit(
                    {
                        "k": "fail",
                        "f": func_name,
                        "args": _concrete(info, args),
                        "sig": v.signature,
                        "detail": _detail(v),
                    }
                )
                emit({"k": "tick", "f": func_name, "o": "fail", "n": info.get("steps", 0)})
                return False
    except Exception as e:  # the harness or an oracle broke: never silently pass
        emit(
            {
                "k": "fail",
                "f": func_name,
                "args": _concrete(info, args),
                "sig": "HARNESS-EXCEPTION/%s" % type(e).__name__,
                "detail": traceback.format_exc()[-1500:],
            }
        )
        emit({"k": "tick", "f": func_name, "o": "fail", "n": 0})
        return False
    tick = {"k": "tick", "f": func_name, "o": outcome, "n": info.get("steps", 0)}
    if "cls" in info:
        tick["c"] = info["cls"]
    emit(tick)
    # samples never realise anything: the body supplies path-concrete arguments or none
    if outcome == "ok" and "concrete" in info and (npath <= 6 or npath % SAMPLE_EVERY == 0):
        emit(
            {
                "k": "sample",
                "f": func_name,
                "args": jsonable(info["concrete"]),
                "show": jsonable(info.get("show")),
            }
        )
    if VACUITY and outcome in ("ok", "known"):
        return False  # reachability twin: must be refuted
    return True
