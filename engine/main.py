"""python -m engine.main <ID> <tier>   |   python -m engine.main --replay <path>"""
import importlib
import os
import sys
import time


def main():
    if sys.argv[1] == "--replay":
        from engine import replay
        sys.argv = ["replay", "--one", sys.argv[2]]
        return replay.main()
    pid, tier = sys.argv[1], sys.argv[2]
    seed = int(os.environ.get("VERIF_SEED", "0") or 0)
    mod = importlib.import_module("props.%s" % pid.lower())
    from engine import xh
    try:
        plan = mod.plan(tier, seed)
    except Exception as e:      # building the encoding failed: a machinery error (exit 3), never a verdict
        import traceback
        traceback.print_exc()
        print("MACHINERY-ERROR: plan for %s could not be built: %r" % (pid, e), file=sys.stderr)
        return 3
    return xh.run_property(pid, tier, plan.get("conds", []), plan["meta"],
                           obligations=plan.get("obligations"), seed=seed)


if __name__ == "__main__":
    sys.exit(main())
