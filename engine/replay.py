"""Native (non-symbolic) re-execution of harness cases: python -m engine.replay in.json out.json
or, for one stored counterexample, python -m engine.replay --one replay.json"""
import importlib.util
import json
import os
import signal
import sys
import tempfile


def _load(path):
    name = "h_" + os.path.basename(path)[:-3]
    if name in sys.modules:
        return sys.modules[name]
    spec = importlib.util.spec_from_file_location(name, path)
    mod = importlib.util.module_from_spec(spec)
    sys.modules[name] = mod
    spec.loader.exec_module(mod)
    return mod


class _Alarm(BaseException):
    pass


def _on_alarm(signum, frame):
    raise _Alarm()


def run_cases(cases):
    fd, side = tempfile.mkstemp(prefix="xhside", dir=os.environ.get("TMPDIR", "/var/tmp"))
    os.close(fd)
    os.environ["XH_SIDE"] = side
    os.environ.pop("XH_VACUITY", None)
    from engine import side as S
    out = []
    signal.signal(signal.SIGALRM, _on_alarm)
    for c in cases:
        for k, v in (c.get("env") or {}).items():
            os.environ[k] = str(v)
        pos = os.path.getsize(side)
        S._seen_known.clear()
        try:
            mod = _load(c["file"])
            if hasattr(mod, "reconfigure"):
                mod.reconfigure()
            fn = getattr(mod, c["f"])
            args = S.unjson(c["args"])
            signal.alarm(60)
            try:
                ret = fn(**args)
            finally:
                signal.alarm(0)
        except _Alarm:
            ret = "alarm"
        except Exception as e:  # noqa
            ret = "exception: %r" % (e,)
        with open(side, "rb") as fh:
            fh.seek(pos)
            recs = [json.loads(l) for l in fh.read().decode("ascii").splitlines() if l.strip()]
        out.append({"ret": ret if isinstance(ret, (bool, str)) else bool(ret), "recs": recs})
    os.unlink(side)
    return out


def main():
    if sys.argv[1] == "--one":
        c = json.load(open(sys.argv[2]))
        if "e2" in c:
            print("solver obligation %s: witness %r" % (c["e2"], c.get("witness")))
            print(json.dumps(c.get("detail"), indent=1))
            return 0
        r = run_cases([c])[0]
        print("harness %s(%s) -> %r" % (c["f"], json.dumps(c["args"]), r["ret"]))
        for x in r["recs"]:
            if x.get("k") in ("fail", "known"):
                print("  %s signature=%s" % (x["k"], x["sig"]))
                print("  detail=%s" % json.dumps(x.get("detail"), indent=1))
        return 1 if r["ret"] is False else 0
    cases = json.load(open(sys.argv[1]))
    json.dump(run_cases(cases), open(sys.argv[2], "w"))
    return 0


if __name__ == "__main__":
    sys.exit(main())
