"""E2: Python `re` bytes patterns -> z3 regular expressions over the 8-bit alphabet.

The pattern source is taken from the live objects of /repo on every run (Parser.lrules, the
compiled patterns stored on managesieve.Client).  Bytes are modelled as z3 characters 0..255.

Supported: literals, classes (ranges, negation, \\s \\S \\w \\W \\d \\D in ASCII semantics), '.',
branches, groups (capturing or not), greedy and lazy repeats (same language), '$' / '^' only where
the caller states how to treat them (`anchors`).  Anything else raises Unsupported -> the lemma is
reported inconclusive, never discharged.
"""
import re
import time

try:                       # Python 3.11+: re._parser ; older: sre_parse
    import re._parser as sre_parse
    import re._constants as sre_constants
except ImportError:        # pragma: no cover
    import sre_parse
    import sre_constants

import z3


class Unsupported(Exception):
    pass


def ch(b):
    return z3.StringVal(chr(b)) if b < 128 else z3.Unit(z3.CharVal(b))


def s_lit(bs):
    """z3 string constant for a byte string"""
    if not bs:
        return z3.StringVal("")
    parts = [z3.Unit(z3.CharVal(b)) for b in bs]
    return parts[0] if len(parts) == 1 else z3.Concat(*parts)


def rng(lo, hi):
    return z3.Range(z3.Unit(z3.CharVal(lo)), z3.Unit(z3.CharVal(hi)))


def any_byte():
    return rng(0, 255)


def re_of_set(byteset):
    """regex matching exactly one byte of the given set"""
    bs = sorted(byteset)
    if not bs:
        return z3.Empty(z3.ReSort(z3.StringSort()))
    runs = []
    start = prev = bs[0]
    for b in bs[1:]:
        if b == prev + 1:
            prev = b
            continue
        runs.append((start, prev))
        start = prev = b
    runs.append((start, prev))
    res = [rng(a, b) for a, b in runs]
    return res[0] if len(res) == 1 else z3.Union(*res)


_CATS = {
    "CATEGORY_DIGIT": set(range(48, 58)),
    "CATEGORY_SPACE": {9, 10, 11, 12, 13, 32},
    "CATEGORY_WORD": set(range(48, 58)) | set(range(65, 91)) | set(range(97, 123)) | {95},
}
ALL = set(range(256))


def _cat(name):
    name = str(name)
    neg = "NOT_" in name
    base = name.replace("NOT_", "")
    for k, v in _CATS.items():
        if base.endswith(k):
            return (ALL - v) if neg else set(v)
    raise Unsupported("category %s" % name)


def _set_of_in(items):
    out = set()
    negate = False
    for op, av in items:
        name = str(op)
        if name == "NEGATE":
            negate = True
        elif name == "LITERAL":
            out.add(av)
        elif name == "RANGE":
            out.update(range(av[0], av[1] + 1))
        elif name == "CATEGORY":
            out |= _cat(av)
        else:
            raise Unsupported("set item %s" % name)
    return (ALL - out) if negate else out


def translate(pattern, flags=0, anchors="error"):
    """pattern: bytes.  anchors: 'error' | 'epsilon' (treat ^/$ as the empty string: a language
    that CONTAINS the real one, good for 'no match' / epsilon-freeness lemmas)."""
    tree = sre_parse.parse(pattern, flags)
    return _tr(tree, flags, anchors)


def _tr(seq, flags, anchors):
    parts = [_node(op, av, flags, anchors) for op, av in seq]
    if not parts:
        return z3.Re(z3.StringVal(""))
    return parts[0] if len(parts) == 1 else z3.Concat(*parts)


def _node(op, av, flags, anchors):
    name = str(op)
    if name == "LITERAL":
        return z3.Re(z3.Unit(z3.CharVal(av)))
    if name == "NOT_LITERAL":
        return re_of_set(ALL - {av})
    if name == "ANY":
        return re_of_set(ALL if flags & re.DOTALL else ALL - {10})
    if name == "IN":
        return re_of_set(_set_of_in(av))
    if name == "BRANCH":
        alts = [_tr(a, flags, anchors) for a in av[1]]
        return alts[0] if len(alts) == 1 else z3.Union(*alts)
    if name == "SUBPATTERN":
        return _tr(av[3], flags, anchors)
    if name in ("MAX_REPEAT", "MIN_REPEAT"):
        lo, hi, sub = av
        r = _tr(sub, flags, anchors)
        if hi == sre_constants.MAXREPEAT:
            if lo == 0:
                return z3.Star(r)
            if lo == 1:
                return z3.Plus(r)
            return z3.Concat(*([r] * lo + [z3.Star(r)]))
        if lo == 0 and hi == 1:
            return z3.Option(r)
        return z3.Loop(r, lo, hi)
    if name == "AT":
        if anchors == "epsilon":
            return z3.Re(z3.StringVal(""))
        raise Unsupported("anchor %s" % av)
    raise Unsupported("regex node %s" % name)


# ---------------------------------------------------------------------------------- lemmas
def bytes_of_model(m, var):
    s = m.eval(var, model_completion=True)
    out = bytearray()
    txt = s.as_string()
    # z3 prints non-printable characters as \u{..}
    i = 0
    while i < len(txt):
        if txt.startswith("\\u{", i):
            j = txt.index("}", i)
            v = int(txt[i + 3:j], 16)
            if v > 255:
                raise Unsupported("model character outside the byte alphabet")
            out.append(v)
            i = j + 1
        else:
            out.append(ord(txt[i]) & 0xFF)
            i += 1
    return bytes(out)


def solve(constraints, var, timeout_ms=20000):
    """returns ('unsat', None) | ('sat', witness bytes) | ('unknown', reason)"""
    s = z3.Solver()
    s.set("timeout", timeout_ms)
    # z3's character sort is larger than a byte: keep every query inside the 8-bit alphabet
    s.add(z3.InRe(var, z3.Star(any_byte())))
    for c in constraints:
        s.add(c)
    t0 = time.time()
    r = s.check()
    dt = time.time() - t0
    if str(r) == "unsat":
        return "unsat", None, dt
    if str(r) == "sat":
        return "sat", bytes_of_model(s.model(), var), dt
    return "unknown", s.reason_unknown(), dt


def validate_translation(pattern, flags=0, anchors="error", samples=6):
    """cross-check the translation with Python's own matcher on z3 models of membership and
    non-membership; returns list of disagreements (empty = validated)"""
    x = z3.String("x")
    r = translate(pattern, flags, anchors)
    rx = re.compile(pattern, flags)
    bad = []
    for member in (True, False):
        blocked = []
        for k in range(samples):
            cons = [z3.InRe(x, r) if member else z3.Not(z3.InRe(x, r)), z3.Length(x) <= 6]
            cons += [x != s_lit(b) for b in blocked]
            st, w, _ = solve(cons, x, 5000)
            if st != "sat":
                break
            blocked.append(w)
            if anchors == "epsilon":
                continue          # over-approximation: only meaningful for plain patterns
            if (rx.fullmatch(w) is not None) != member:
                bad.append((pattern, w, member))
    return bad
