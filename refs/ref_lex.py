"""R2: RFC 5228 section 8.1 tokenizer, written from the RFC (independent of sievelib's rules).

tokenize(data: bytes) -> list of (kind, text: bytes, offset) or raises LexError(offset).
Kinds: '[' ']' '(' ')' '{' '}' ';' ',' string multiline identifier tag number
       hash_comment bracket_comment
Line endings: CRLF per RFC; bare LF (and CR) are accepted as white space / line end, because the
property states the verdict is insensitive to line-ending style.
"""

PUNCT = b"[](){};,"
_ALPHA = frozenset(b"abcdefghijklmnopqrstuvwxyzABCDEFGHIJKLMNOPQRSTUVWXYZ_")
_ALNUM = _ALPHA | frozenset(b"0123456789")
_DIGIT = frozenset(b"0123456789")
_WS = frozenset(b" \t\r\n")


class LexError(Exception):
    def __init__(self, offset, why):
        Exception.__init__(self, "%s at %d" % (why, offset))
        self.offset = offset
        self.why = why


def _valid_utf8(b):
    try:
        b.decode("utf-8")
        return True
    except UnicodeDecodeError:
        return False


def tokenize(data, keep_comments=False):
    data = bytes(data)
    n = len(data)
    i = 0
    out = []
    while i < n:
        c = data[i]
        if c in _WS:
            i += 1
            continue
        if c == 0x23:  # '#'
            j = i
            while j < n and data[j] != 0x0A:
                j += 1
            # comment text excludes the line end
            end = j
            if end > i and data[end - 1] == 0x0D:
                end -= 1
            if keep_comments:
                out.append(("hash_comment", data[i:end], i))
            i = j
            continue
        if c == 0x2F and i + 1 < n and data[i + 1] == 0x2A:  # '/*'
            j = data.find(b"*/", i + 2)
            if j < 0:
                raise LexError(i, "unterminated bracket comment")
            if keep_comments:
                out.append(("bracket_comment", data[i:j + 2], i))
            i = j + 2
            continue
        if c in PUNCT:
            out.append((chr(c), data[i:i + 1], i))
            i += 1
            continue
        if c == 0x22:  # '"'
            j = i + 1
            while True:
                if j >= n:
                    raise LexError(i, "unterminated string")
                if data[j] == 0x5C:
                    if j + 1 >= n:
                        raise LexError(i, "unterminated string")
                    j += 2
                    continue
                if data[j] == 0x22:
                    break
                j += 1
            tok = data[i:j + 1]
            if not _valid_utf8(tok):
                raise LexError(i, "string is not UTF-8")
            out.append(("string", tok, i))
            i = j + 1
            continue
        if c == 0x3A:  # ':' tag
            j = i + 1
            if j < n and data[j] in _ALPHA:
                while j < n and data[j] in _ALNUM:
                    j += 1
                out.append(("tag", data[i:j], i))
                i = j
                continue
            raise LexError(i, "bad tag")
        if c in _DIGIT:
            j = i
            while j < n and data[j] in _DIGIT:
                j += 1
            if j < n and data[j] in b"KMGkmg":
                j += 1
            out.append(("number", data[i:j], i))
            i = j
            continue
        if c in _ALPHA:
            j = i
            while j < n and data[j] in _ALNUM:
                j += 1
            word = data[i:j]
            if word.lower() == b"text" and j < n and data[j] == 0x3A:
                # multi-line = "text:" *(SP / HTAB) (hash-comment / CRLF) body "." CRLF
                k = j + 1
                while k < n and data[k] in b" \t":
                    k += 1
                if k < n and data[k] == 0x23:
                    while k < n and data[k] != 0x0A:
                        k += 1
                if k < n and data[k] == 0x0D and k + 1 < n and data[k + 1] == 0x0A:
                    k += 2
                elif k < n and data[k] == 0x0A:
                    k += 1
                else:
                    raise LexError(i, "bad multi-line start")
                # lines until a line that is exactly "."
                while True:
                    if k >= n:
                        raise LexError(i, "unterminated multi-line string")
                    e = data.find(b"\n", k)
                    line_end = n if e < 0 else e
                    line = data[k:line_end]
                    if line.endswith(b"\r"):
                        line = line[:-1]
                    if line == b".":
                        # token ends after the dot; the line end is white space
                        tok = data[i:k + 1]
                        if not _valid_utf8(tok):
                            raise LexError(i, "multi-line string is not UTF-8")
                        out.append(("multiline", tok, i))
                        i = k + 1
                        break
                    if e < 0:
                        raise LexError(i, "unterminated multi-line string")
                    k = e + 1
                continue
            out.append(("identifier", word, i))
            i = j
            continue
        raise LexError(i, "no token starts with byte 0x%02x" % c)
    return out


def string_value(tok):
    """RFC 5228 2.4.2: decode a quoted-string token (bytes incl. quotes) to its value."""
    body = tok[1:-1]
    out = bytearray()
    i = 0
    while i < len(body):
        if body[i] == 0x5C and i + 1 < len(body):
            out.append(body[i + 1])
            i += 2
        else:
            out.append(body[i])
            i += 1
    return bytes(out)


def multiline_value(tok):
    """Value of a text: block: lines after the first line end, dot-unstuffed, without the final '.'"""
    e = tok.find(b"\n")
    body = tok[e + 1:]
    lines = body.split(b"\n")
    assert lines[-1].rstrip(b"\r") == b"."
    out = []
    for ln in lines[:-1]:
        ln = ln[:-1] if ln.endswith(b"\r") else ln
        if ln.startswith(b".."):
            ln = ln[1:]
        out.append(ln)
    return b"\r\n".join(out) + (b"\r\n" if out else b"")
