"""R3: strict RFC 5804 server side, written from the RFC (independent of sievelib).

parse_commands(data) -> list of (verb, args) | raises ProtoError
    command line grammar (RFC 5804 section 4): verb *(SP argument) CRLF; arguments are
    quoted strings (only \\\\ and \\" escapes; no CR, LF, NUL), literals {n+}CRLF<n octets> (a client
    may only use the non-synchronising form), numbers and atoms.
quote(s) / literal(s)                 server-side string encoders
status_line(status, code, text, form)  response-ok / response-no / response-bye
Server                                in-memory script store with fault injection and a
                                      protocol-violation log
"""


class ProtoError(Exception):
    pass


def _is_atom_char(b):
    return 0x21 <= b <= 0x7E and b not in b'"\\(){}%*'


def parse_commands(data):
    """strict parse of everything a client wrote; returns [(verb, [args])]; args are bytes (strings),
    int (numbers) or ('atom', bytes)."""
    out = []
    i = 0
    n = len(data)
    while i < n:
        # verb
        j = i
        while j < n and (65 <= data[j] <= 90 or 97 <= data[j] <= 122):
            j += 1
        if j == i:
            raise ProtoError("command does not start with a verb at %d: %r" % (i, data[i:i + 20]))
        verb = data[i:j].upper()
        i = j
        args = []
        while True:
            if i + 1 < n and data[i] == 13 and data[i + 1] == 10:
                i += 2
                break
            if i >= n:
                raise ProtoError("command not terminated by CRLF")
            if data[i] != 32:
                raise ProtoError("expected SP or CRLF at %d: %r" % (i, data[max(0, i - 10):i + 10]))
            i += 1
            if i >= n:
                raise ProtoError("argument expected at end of data")
            c = data[i]
            if c == 0x22:
                j = i + 1
                val = b""           # built from slices of data (stays symbolic under CrossHair)
                while True:
                    if j >= n:
                        raise ProtoError("unterminated quoted string")
                    b = data[j]
                    if b == 0x22:
                        break
                    if b == 0 or b == 10 or b == 13:
                        raise ProtoError("CR/LF/NUL inside a quoted string")
                    if b == 0x5C:
                        if j + 1 >= n or (data[j + 1] != 0x22 and data[j + 1] != 0x5C):
                            raise ProtoError("bad escape in quoted string")
                        val = val + data[j + 1:j + 2]
                        j += 2
                        continue
                    val = val + data[j:j + 1]
                    j += 1
                try:
                    val.decode("utf-8")
                except UnicodeDecodeError:
                    raise ProtoError("quoted string is not UTF-8")
                args.append(val)
                i = j + 1
            elif c == 0x7B:
                j = i + 1
                while j < n and 48 <= data[j] <= 57:
                    j += 1
                if j == i + 1:
                    raise ProtoError("literal without a size")
                size = int(data[i + 1:j])
                if j < n and data[j] == 0x2B:
                    j += 1
                else:
                    raise ProtoError("client used a synchronising literal")
                if not (j + 2 < n + 1 and data[j:j + 3] == b"}\r\n"):
                    raise ProtoError("malformed literal header")
                j += 3
                if j + size > n:
                    raise ProtoError("literal shorter than announced")
                lit = data[j:j + size]
                k = 0
                while k < size:
                    if lit[k] == 0:
                        raise ProtoError("NUL inside a literal (RFC 5804 strings are UTF-8 without NUL)")
                    k += 1
                args.append(lit)
                i = j + size
            elif 48 <= c <= 57:
                j = i
                while j < n and 48 <= data[j] <= 57:
                    j += 1
                args.append(int(data[i:j]))
                i = j
            elif _is_atom_char(c):
                j = i
                while j < n and _is_atom_char(data[j]):
                    j += 1
                args.append(("atom", data[i:j]))
                i = j
            else:
                raise ProtoError("bad argument start 0x%02x" % c)
        out.append((verb, args))
    return out


def quote(s):
    s = bytes(s)
    return b'"' + s.replace(b"\\", b"\\\\").replace(b'"', b'\\"') + b'"'


def literal(s):
    s = bytes(s)
    return b"{%d}\r\n" % len(s) + s


def can_quote(s):
    return not any(b in s for b in (b"\r", b"\n", b"\0")) and len(s) <= 1024


def encode_string(s, form):
    """form: 'quoted' | 'literal'"""
    if form == "quoted" and can_quote(s):
        return quote(s)
    return literal(s)


def status_line(status, code=None, text=None, form="quoted"):
    """status: b'OK' | b'NO' | b'BYE'; code: bytes like b'QUOTA/MAXSIZE' or b'TAG "x"' or None;
    text: bytes or None."""
    line = status
    if code is not None:
        line += b" (" + code + b")"
    if text is not None:
        line += b" " + encode_string(text, form)
    return line + b"\r\n"


VERBS_AUTH = {b"HAVESPACE", b"LISTSCRIPTS", b"GETSCRIPT", b"PUTSCRIPT", b"CHECKSCRIPT", b"DELETESCRIPT",
              b"RENAMESCRIPT", b"SETACTIVE"}


class Server:
    """Reference ManageSieve server: state + reply generation.  `choose(what, n)` supplies the
    nondeterministic decisions (reply encodings, permitted NO outcomes, faults)."""

    def __init__(self, scripts=None, active=None, version=True, choose=None, quota=None):
        self.scripts = dict(scripts or {})      # name(bytes) -> body(bytes), insertion ordered
        self.active = active
        self.version = version
        self.choose = choose or (lambda what, n: 0)
        self.quota = quota
        self.violations = []
        self.authenticated = True
        self.log = []
        self.seq = 0
        self.fault = None       # callable(verb, step) -> None | 'NO' | 'BYE' | 'SILENT'
        self.step = 0

    def capabilities(self, sasl=b"PLAIN", starttls=False):
        out = b'"IMPLEMENTATION" "ref"\r\n'
        if self.version:
            out += b'"VERSION" "1.0"\r\n'
        out += b'"SASL" ' + quote(sasl) + b"\r\n"
        out += b'"SIEVE" "fileinto"\r\n'
        if starttls:
            out += b'"STARTTLS"\r\n'
        return out

    def _form(self, what):
        return "literal" if self.choose("form:" + what, 2) else "quoted"

    def _ok(self, text=b"done"):
        self.seq += 1
        form = self._form("oktext")
        # an OK may carry a response code; with a literal text this is the shape 'OK (WARNINGS) {n}'
        code = b"WARNINGS" if (form == "literal" and self.choose("okcode", 2)) else None
        return status_line(b"OK", code, text + b" #%d" % self.seq, form)

    def _no(self, code, text):
        self.seq += 1
        return status_line(b"NO", code, text + b" #%d" % self.seq, self._form("notext"))

    def handle(self, data):
        """data: bytes of exactly what the client wrote for one call; returns reply bytes (may be
        empty for SILENT)."""
        try:
            cmds = parse_commands(data)
        except ProtoError as e:
            self.violations.append("unparsable: %s" % e)
            return status_line(b"NO", None, b"syntax error", "quoted")
        if len(cmds) != 1:
            self.violations.append("%d commands in one write" % len(cmds))
        out = b""
        for verb, args in cmds:
            out += self.execute(verb, args)
        return out

    def execute(self, verb, args):
        self.log.append((verb, args))
        self.step += 1
        if self.fault is not None:
            f = self.fault(verb, self.step)
            if f == "NO":
                return self._no(None, b"refused")
            if f == "BYE":
                return status_line(b"BYE", None, b"going away", "quoted")
            if f == "SILENT":
                return b""
        if verb in VERBS_AUTH and not self.authenticated:
            self.violations.append("%s before authentication" % verb.decode())
            return self._no(None, b"authenticate first")
        strs = [a for a in args if isinstance(a, bytes)]
        if verb == b"LISTSCRIPTS":
            if args:
                self.violations.append("LISTSCRIPTS with arguments")
            out = b""
            for name in self.scripts:
                out += encode_string(name, self._form("name")) + (b" ACTIVE" if name == self.active else b"") + b"\r\n"
            return out + self._ok()
        if verb == b"GETSCRIPT":
            if len(args) != 1 or len(strs) != 1:
                self.violations.append("GETSCRIPT arity")
                return self._no(None, b"bad arguments")
            if strs[0] not in self.scripts:
                return self._no(b"NONEXISTENT", b"no such script")
            body = self.scripts[strs[0]]
            return encode_string(body, "literal" if not can_quote(body) else self._form("body")) + b"\r\n" + self._ok()
        if verb == b"PUTSCRIPT":
            if len(args) != 2 or len(strs) != 2:
                self.violations.append("PUTSCRIPT arity")
                return self._no(None, b"bad arguments")
            if self.quota is not None and len(strs[1]) > self.quota:
                return self._no(b"QUOTA/MAXSIZE", b"too big")
            self.scripts[strs[0]] = strs[1]
            return self._ok()
        if verb == b"CHECKSCRIPT":
            if len(args) != 1 or len(strs) != 1:
                self.violations.append("CHECKSCRIPT arity")
                return self._no(None, b"bad arguments")
            return self._ok()
        if verb == b"DELETESCRIPT":
            if len(args) != 1 or len(strs) != 1:
                self.violations.append("DELETESCRIPT arity")
                return self._no(None, b"bad arguments")
            if strs[0] not in self.scripts:
                return self._no(b"NONEXISTENT", b"no such script")
            if strs[0] == self.active:
                return self._no(b"ACTIVE", b"script is active")
            del self.scripts[strs[0]]
            return self._ok()
        if verb == b"SETACTIVE":
            if len(args) != 1 or len(strs) != 1:
                self.violations.append("SETACTIVE arity")
                return self._no(None, b"bad arguments")
            if strs[0] == b"":
                self.active = None
                return self._ok()
            if strs[0] not in self.scripts:
                return self._no(b"NONEXISTENT", b"no such script")
            self.active = strs[0]
            return self._ok()
        if verb == b"RENAMESCRIPT":
            if len(args) != 2 or len(strs) != 2:
                self.violations.append("RENAMESCRIPT arity")
                return self._no(None, b"bad arguments")
            if not self.version:
                self.violations.append("RENAMESCRIPT sent to a server that did not announce it")
                return self._no(None, b"unknown command")
            old, new = strs
            if old not in self.scripts:
                return self._no(b"NONEXISTENT", b"no such script")
            if new in self.scripts:
                return self._no(b"ALREADYEXISTS", b"exists")
            items = [(new if k == old else k, v) for k, v in self.scripts.items()]
            self.scripts = dict(items)
            if self.active == old:
                self.active = new
            return self._ok()
        if verb == b"HAVESPACE":
            if len(args) != 2 or not isinstance(args[0], bytes) or not isinstance(args[1], int):
                self.violations.append("HAVESPACE arguments: %r" % (args,))
                return self._no(None, b"bad arguments")
            if self.quota is not None and args[1] > self.quota:
                return self._no(b"QUOTA/MAXSIZE", b"too big")
            return self._ok()
        if verb == b"CAPABILITY":
            return self.capabilities() + self._ok()
        if verb == b"LOGOUT":
            return self._ok(b"bye")
        if verb == b"NOOP":
            return self._ok()
        self.violations.append("unknown verb %r" % verb)
        return self._no(None, b"unknown command")
