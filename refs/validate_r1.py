"""Validate R1/R2 against the verdicts pinned by the repository's own suite."""
import json, os, sys
from refs import ref_lex, ref_sieve

def verdict(data):
    try:
        toks = ref_lex.tokenize(data)
    except ref_lex.LexError as e:
        return "lex", str(e), []
    res = ref_sieve.check(toks)
    return res.status, (res.reason, res.cmd, res.pos), res.taints

def main():
    here = os.path.dirname(os.path.abspath(__file__))
    bad = 0
    for o in json.load(open(os.path.join(here, "suite_scripts.json"))):
        data = bytes.fromhex(o["hex"])
        st, why, taints = verdict(data)
        mine = st == "accept"
        if mine != o["verdict"]:
            bad += 1
            print("DISAGREE suite=%s ref=%s %s taints=%s\n   %r" % (o["verdict"], st, why, taints, data[:300]))
    print("disagreements:", bad)
    return bad

if __name__ == "__main__":
    sys.exit(1 if main() else 0)
