"""R1: reference recogniser for the Sieve language sievelib claims to support.

Written from RFC 5228 (grammar 8.2, commands), 3894 (:copy), 5173 (body), 5229 (set), 5230/6131
(vacation), 5231 (relational), 5232 (imap4flags), 5260 (date), 5490 (:create), regex draft, and
the README's supported list.  Independent of sievelib: it shares no code and no table with it.

Interface
    r = Ref(loaded=None)            loaded: iterable of extension names treated as required,
                                    or a callable name -> bool (extra to `require` commands seen)
    r.feed(kind, text)              raises Reject(reason, cmd) at the FIRST token after which no
                                    continuation of the prefix can be valid (eager)
    r.finish()                      'accept' or 'incomplete' (prefix viable, script not finished)
    r.taints                        reasons the input is outside the properties' claim
    r.tree                          list of Node for finished top-level commands
    r.ext_uses                      [(extension, token index)] in script order
check(tokens, loaded) -> Result(status, pos, reason, cmd, taints, tree, ext_uses)
"""

STRING, STRLIST, NUMBER = "string", "strlist", "number"

MATCH_TYPE = {
    ":is": (None, None, None),
    ":contains": (None, None, None),
    ":matches": (None, None, None),
    ":count": (STRING, ['"gt"', '"ge"', '"lt"', '"le"', '"eq"', '"ne"'], "relational"),
    ":value": (STRING, ['"gt"', '"ge"', '"lt"', '"le"', '"eq"', '"ne"'], "relational"),
    ":regex": (None, None, "regex"),
}
COMPARATOR = {":comparator": (STRING, ['"i;octet"', '"i;ascii-casemap"'], None)}
ADDRESS_PART = {":localpart": (None, None, None), ":domain": (None, None, None),
                ":all": (None, None, None)}


def _slot(name, table):
    return {t: (name,) + v for t, v in table.items()}


def _tags(*slots):
    d = {}
    for s in slots:
        d.update(s)
    return d


_CMP = _slot("comparator", COMPARATOR)
_MT = _slot("match-type", MATCH_TYPE)
_AP = _slot("address-part", ADDRESS_PART)

# name -> dict(role, ext, tags{tag:(slot,ptype,pvalues,ext)}, pos=[(type, optional)], test=0|1|'list',
#              block=bool, follow=[...], reqtags=[slot...])
CMDS = {}


def _cmd(name, role, ext=None, tags=None, pos=(), test=0, block=False, follow=None, reqtags=()):
    CMDS[name] = dict(name=name, role=role, ext=ext, tags=tags or {}, pos=list(pos), test=test,
                      block=block, follow=follow, reqtags=list(reqtags))


_cmd("require", "command", pos=[(STRLIST, False)])
_cmd("if", "command", test=1, block=True)
_cmd("elsif", "command", test=1, block=True, follow=["if", "elsif"])
_cmd("else", "command", block=True, follow=["if", "elsif"])
_cmd("stop", "command")
_cmd("keep", "command", tags=_slot("flags", {":flags": (STRLIST, None, "imap4flags")}))
_cmd("discard", "command")
_cmd("redirect", "command", tags=_slot("copy", {":copy": (None, None, "copy")}),
     pos=[(STRING, False)])
_cmd("fileinto", "command", ext="fileinto",
     tags=_tags(_slot("copy", {":copy": (None, None, "copy")}),
                _slot("create", {":create": (None, None, "mailbox")}),
                _slot("flags", {":flags": (STRLIST, None, "imap4flags")})),
     pos=[(STRING, False)])
_cmd("reject", "command", ext="reject", pos=[(STRING, False)])
for _n in ("setflag", "addflag", "removeflag"):
    _cmd(_n, "command", ext="imap4flags", pos=[(STRING, True), (STRLIST, False)])
_cmd("vacation", "command", ext="vacation",
     tags=_tags(_slot("subject", {":subject": (STRING, None, None)}),
                _slot("days", {":days": (NUMBER, None, None)}),
                _slot("seconds", {":seconds": (NUMBER, None, "vacation-seconds")}),
                _slot("from", {":from": (STRING, None, None)}),
                _slot("addresses", {":addresses": (STRLIST, None, None)}),
                _slot("handle", {":handle": (STRING, None, None)}),
                _slot("mime", {":mime": (None, None, None)})),
     pos=[(STRING, False)])
_cmd("set", "command", ext="variables", pos=[(STRING, False), (STRING, False)])

_cmd("true", "test")
_cmd("false", "test")
_cmd("not", "test", test=1)
_cmd("anyof", "test", test="list")
_cmd("allof", "test", test="list")
_cmd("exists", "test", pos=[(STRLIST, False)])
_cmd("size", "test", tags=_slot("comparator", {":over": (None, None, None),
                                               ":under": (None, None, None)}),
     pos=[(NUMBER, False)], reqtags=["comparator"])
_cmd("header", "test", tags=_tags(_CMP, _MT), pos=[(STRLIST, False), (STRLIST, False)])
_cmd("address", "test", tags=_tags(_CMP, _AP, _MT), pos=[(STRLIST, False), (STRLIST, False)])
_cmd("envelope", "test", ext="envelope", tags=_tags(_CMP, _AP, _MT),
     pos=[(STRLIST, False), (STRLIST, False)])
_cmd("body", "test", ext="body",
     tags=_tags(_CMP, _MT, _slot("body-transform", {":raw": (None, None, None),
                                                    ":content": (STRLIST, None, None),
                                                    ":text": (None, None, None)})),
     pos=[(STRLIST, False)])
_cmd("hasflag", "test", ext="imap4flags", tags=_tags(_CMP, _MT),
     pos=[(STRLIST, True), (STRLIST, False)])
_cmd("date", "test", ext="date",
     tags=_tags(_slot("zone", {":zone": (STRING, None, None),
                               ":originalzone": (None, None, None)}), _CMP, _MT),
     pos=[(STRING, False), (STRING, False), (STRLIST, False)])
_cmd("currentdate", "test", ext="date",
     tags=_tags(_slot("zone", {":zone": (STRING, None, None)}), _CMP, _MT),
     pos=[(STRING, False), (STRLIST, False)])

KNOWN_EXTENSIONS = {"fileinto", "reject", "envelope", "body", "copy", "mailbox", "imap4flags",
                    "vacation", "vacation-seconds", "relational", "regex", "date", "variables"}

ARG_KINDS = ("string", "multiline", "number", "tag", "[")


class Reject(Exception):
    def __init__(self, reason, cmd=None, ext=None):
        Exception.__init__(self, reason)
        self.reason = reason
        self.cmd = cmd
        self.ext = ext


class Node:
    def __init__(self, name):
        self.name = name
        self.tags = {}       # tag text (lower) -> parameter (raw text / list of raw texts) or None
        self.pos = []        # positional values in order: raw text, or list of raw texts
        self.tests = []
        self.children = []

    def as_tuple(self):
        return (self.name,
                tuple(sorted((k, _freeze(v)) for k, v in self.tags.items())),
                tuple(_freeze(v) for v in self.pos),
                tuple(t.as_tuple() for t in self.tests),
                tuple(c.as_tuple() for c in self.children))


def _freeze(v):
    return tuple(v) if isinstance(v, list) else v


def _variants(pos):
    """All slot-type sequences allowed by optional positional arguments."""
    outs = [[]]
    for typ, optional in pos:
        new = []
        for o in outs:
            new.append(o + [typ])
            if optional:
                new.append(list(o))
        outs = new
    return outs


def _fits(kind, typ):
    if typ == STRING:
        return kind == "str"
    if typ == STRLIST:
        return kind in ("str", "list")
    if typ == NUMBER:
        return kind == "num"
    return False


class _Cmd:
    def __init__(self, spec, node, given_name):
        self.spec = spec
        self.node = node
        self.given = given_name
        self.slots_seen = set()
        self.pending = None      # (tag, ptype, pvalues) waiting for its parameter
        self.kinds = []          # kinds of positional arguments seen
        self.tests_done = 0
        self.in_list = False
        self.list_closed = False
        self.want_test = False


class _Block:
    def __init__(self, owner):
        self.owner = owner       # Node or None (top level)
        self.prev = None         # name of the previous command in this block


class _StrList:
    def __init__(self):
        self.items = []
        self.state = "item"      # 'item' | 'sep'


class Ref:
    def __init__(self, loaded=None):
        self._static_loaded = loaded
        self.required = []       # names from completed require commands (order)
        self.taints = []
        self.tree = []
        self.ext_uses = []
        self.stack = [_Block(None)]
        self.ntok = 0
        self.rejected = None

    # ---- extension handling
    def _is_loaded(self, ext):
        if ext in self.required:
            return True
        sl = self._static_loaded
        if sl is None:
            return False
        if callable(sl):
            return bool(sl(ext))
        return ext in sl

    def _use(self, ext, cmd):
        if not ext:
            return
        self.ext_uses.append((ext, self.ntok))
        if not self._is_loaded(ext):
            raise Reject("EXTENSION_NOT_LOADED", cmd, ext)

    def _taint(self, why):
        if why not in self.taints:
            self.taints.append(why)

    # ---- driver
    def feed(self, kind, text):
        if self.rejected is not None:
            raise self.rejected
        try:
            self._feed(kind, text)
        except Reject as r:
            self.rejected = r
            raise
        self.ntok += 1

    def finish(self):
        if self.rejected is not None:
            raise self.rejected
        if len(self.stack) == 1:
            return "accept"
        return "incomplete"

    def innermost_cmd(self):
        for fr in reversed(self.stack):
            if isinstance(fr, _Cmd):
                return fr.spec["name"]
        return None

    def _feed(self, kind, text):
        top = self.stack[-1]
        if isinstance(top, _StrList):
            return self._feed_strlist(top, kind, text)
        if isinstance(top, _Block):
            return self._feed_block(top, kind, text)
        return self._feed_cmd(top, kind, text)

    # ---- blocks
    def _feed_block(self, blk, kind, text):
        if kind == "}":
            if blk.owner is None:
                raise Reject("UNBALANCED_CLOSE", None)
            self.stack.pop()           # the block
            cmd = self.stack.pop()     # its command
            self._finish_command(cmd)
            return
        if kind != "identifier":
            raise Reject("COMMAND_EXPECTED/" + kind, None)
        name = text.decode("ascii").lower()
        spec = CMDS.get(name)
        if spec is None:
            raise Reject("UNKNOWN_COMMAND", name)
        if spec["role"] == "test":
            raise Reject("TEST_AS_COMMAND", name)
        if spec["follow"] is not None and blk.prev not in spec["follow"]:
            raise Reject("MISPLACED_" + name.upper(), name)
        if name == "require" and (blk.owner is not None or blk.prev not in (None, "require")):
            self._taint("REQUIRE_POSITION")
        self._use(spec["ext"], name)
        node = Node(name)
        self.stack.append(_Cmd(spec, node, name))

    def _finish_command(self, cmd):
        """cmd (role command) is complete: attach it to the enclosing block."""
        blk = self.stack[-1]
        assert isinstance(blk, _Block)
        blk.prev = cmd.spec["name"]
        if blk.owner is None:
            self.tree.append(cmd.node)
        else:
            blk.owner.children.append(cmd.node)
        if cmd.spec["name"] == "require" and cmd.node.pos:
            v = cmd.node.pos[0]
            for item in (v if isinstance(v, list) else [v]):
                nm = item[1:-1] if item.startswith('"') else item
                if nm not in KNOWN_EXTENSIONS:
                    self._taint("UNKNOWN_EXTENSION_IN_REQUIRE")
                if nm not in self.required:
                    self.required.append(nm)

    # ---- string lists
    def _feed_strlist(self, sl, kind, text):
        if sl.state == "item":
            if kind == "multiline":
                self._taint("MULTILINE_IN_STRING_LIST")
            elif kind != "string":
                raise Reject("STRINGLIST_ITEM_EXPECTED/" + kind, self.innermost_cmd())
            sl.items.append(text.decode("utf-8"))
            sl.state = "sep"
            return
        if kind == ",":
            sl.state = "item"
            return
        if kind == "]":
            self.stack.pop()
            cmd = self.stack[-1]
            self._argument(cmd, "list", sl.items)
            return
        raise Reject("STRINGLIST_SEPARATOR_EXPECTED/" + kind, self.innermost_cmd())

    # ---- a command's arguments
    def _argument(self, cmd, akind, value):
        spec = cmd.spec
        name = spec["name"]
        if cmd.tests_done or cmd.in_list or cmd.list_closed:
            raise Reject("ARGUMENT_AFTER_TEST", name)
        if cmd.pending is not None:
            tag, ptype, pvalues = cmd.pending
            if not _fits(akind, ptype):
                raise Reject("BAD_TAG_PARAMETER_TYPE", name + tag)
            if pvalues is not None and (akind != "str" or value not in pvalues):
                raise Reject("BAD_TAG_PARAMETER_VALUE", name + tag)
            cmd.node.tags[tag] = value
            cmd.pending = None
            return
        if akind == "tag":
            tag = value.lower()
            ent = spec["tags"].get(tag)
            if ent is None:
                raise Reject("UNKNOWN_TAG", name + tag)
            if cmd.kinds:
                raise Reject("TAG_AFTER_POSITIONAL", name + tag)
            slot, ptype, pvalues, ext = ent
            self._use(ext, name + tag)
            if slot in cmd.slots_seen:
                self._taint("REPEATED_TAG_SLOT")
            cmd.slots_seen.add(slot)
            cmd.node.tags[tag] = None
            if ptype is not None:
                cmd.pending = (tag, ptype, pvalues)
            return
        # positional
        for slot in spec["reqtags"]:
            if slot not in cmd.slots_seen:
                raise Reject("MISSING_REQUIRED_TAG", name)
        kinds = cmd.kinds + [akind]
        ok = False
        for var in _variants(spec["pos"]):
            if len(var) >= len(kinds) and all(_fits(k, t) for k, t in zip(kinds, var)):
                ok = True
                break
        if not ok:
            if not spec["pos"]:
                raise Reject("SURPLUS_ARGUMENT", name)
            maxn = max(len(v) for v in _variants(spec["pos"]))
            if len(kinds) > maxn:
                raise Reject("SURPLUS_ARGUMENT", name)
            raise Reject("ILL_TYPED_ARGUMENT", name)
        cmd.kinds = kinds
        cmd.node.pos.append(value)

    def _args_complete(self, cmd):
        """Called when the argument part of cmd ends; taints omitted required arguments."""
        spec = cmd.spec
        name = spec["name"]
        if cmd.pending is not None:
            # the tag's parameter and everything after it was left out: the properties put
            # "omitted trailing required arguments" outside their claim
            self._taint("OMITTED_REQUIRED_ARGUMENTS")
        if cmd.in_list:
            raise Reject("UNCLOSED_TEST_LIST", name)
        minn = min(len(v) for v in _variants(spec["pos"]))
        full = any(len(v) == len(cmd.kinds) and all(_fits(k, t) for k, t in zip(cmd.kinds, v))
                   for v in _variants(spec["pos"]))
        if len(cmd.kinds) < minn or not full:
            self._taint("OMITTED_REQUIRED_ARGUMENTS")
        for slot in spec["reqtags"]:
            if slot not in cmd.slots_seen:
                self._taint("OMITTED_REQUIRED_ARGUMENTS")
        if spec["test"] == 1 and cmd.tests_done != 1:
            raise Reject("MISSING_TEST", name)
        if spec["test"] == "list" and not cmd.list_closed:
            raise Reject("MISSING_TEST_LIST", name)

    def _feed_cmd(self, cmd, kind, text):
        spec = cmd.spec
        name = spec["name"]
        # ---- inside "(" ... ")" of anyof/allof
        if cmd.in_list:
            if cmd.want_test:
                if kind != "identifier":
                    raise Reject("TEST_EXPECTED/" + kind, name)
                return self._start_test(cmd, text)
            if kind == ",":
                cmd.want_test = True
                return
            if kind == ")":
                cmd.in_list = False
                cmd.list_closed = True
                return
            raise Reject("TEST_LIST_SEPARATOR_EXPECTED/" + kind, name)
        if kind in ("string", "multiline"):
            return self._argument(cmd, "str", text.decode("utf-8"))
        if kind == "number":
            return self._argument(cmd, "num", text.decode("ascii"))
        if kind == "tag":
            return self._argument(cmd, "tag", text.decode("ascii"))
        if kind == "[":
            if cmd.tests_done or cmd.list_closed:
                raise Reject("ARGUMENT_AFTER_TEST", name)
            if cmd.pending is not None:
                if cmd.pending[1] != STRLIST:
                    raise Reject("BAD_TAG_PARAMETER_TYPE", name + cmd.pending[0])
            else:
                for slot in spec["reqtags"]:
                    if slot not in cmd.slots_seen:
                        raise Reject("MISSING_REQUIRED_TAG", name)
                # a list can only go to a STRLIST slot: check eagerly
                kinds = cmd.kinds + ["list"]
                if not any(len(v) >= len(kinds) and all(_fits(k, t) for k, t in zip(kinds, v))
                           for v in _variants(spec["pos"])):
                    maxn = max([len(v) for v in _variants(spec["pos"])] or [0])
                    raise Reject("SURPLUS_ARGUMENT" if len(kinds) > maxn
                                 else "ILL_TYPED_ARGUMENT", name)
            self.stack.append(_StrList())
            return
        if kind == "identifier":
            if cmd.pending is not None:
                raise Reject("MISSING_TAG_PARAMETER", name + cmd.pending[0])
            if spec["test"] == 1 and cmd.tests_done == 0:
                return self._start_test(cmd, text)
            if spec["test"] == "list":
                raise Reject("TEST_LIST_EXPECTED/identifier", name)
            if spec["test"] == 0:
                raise Reject("TEST_AFTER_COMMAND_WITHOUT_TEST", name)
            raise Reject("SURPLUS_TEST", name)
        if kind == "(":
            if cmd.pending is not None:
                raise Reject("MISSING_TAG_PARAMETER", name + cmd.pending[0])
            if spec["test"] == "list" and not cmd.list_closed:
                cmd.in_list = True
                cmd.want_test = True
                return
            raise Reject("UNEXPECTED_TEST_LIST", name)
        # ---- tokens that end this command's arguments
        if spec["role"] == "test":
            if kind in ("{", ",", ")", ";"):
                self._args_complete(cmd)
                self.stack.pop()
                parent = self.stack[-1]
                parent.node.tests.append(cmd.node)
                if parent.in_list:
                    parent.want_test = False
                else:
                    parent.tests_done += 1
                return self._feed_cmd(parent, kind, text)   # re-dispatch to the owner
            raise Reject("UNEXPECTED_TOKEN/" + kind, name)
        if kind == ";":
            self._args_complete(cmd)
            if spec["block"]:
                raise Reject("MISSING_BLOCK", name)
            self.stack.pop()
            self._finish_command(cmd)
            return
        if kind == "{":
            if not spec["block"]:
                raise Reject("BLOCK_AFTER_NON_BLOCK_COMMAND", name)
            self._args_complete(cmd)
            self.stack.append(_Block(cmd.node))
            return
        raise Reject("UNEXPECTED_TOKEN/" + kind, name)

    def _start_test(self, owner, text):
        tname = text.decode("ascii").lower()
        tspec = CMDS.get(tname)
        if tspec is None:
            raise Reject("UNKNOWN_COMMAND", tname)
        if tspec["role"] != "test":
            raise Reject("NOT_A_TEST", tname)
        self._use(tspec["ext"], tname)
        c = _Cmd(tspec, Node(tname), tname)
        self.stack.append(c)


class Result:
    def __init__(self):
        self.status = None     # 'accept' | 'incomplete' | 'reject'
        self.pos = None        # index of the first token that makes the prefix non-viable
        self.reason = None
        self.cmd = None
        self.ext = None
        self.taints = []
        self.tree = []
        self.ext_uses = []
        self.open_cmd = None   # innermost open command when the input ended / was rejected


def check(tokens, loaded=None):
    """tokens: iterable of (kind, text[, ...]) without comments."""
    r = Ref(loaded)
    res = Result()
    i = -1
    try:
        for i, t in enumerate(tokens):
            res.open_cmd = r.innermost_cmd()
            r.feed(t[0], t[1])
        res.open_cmd = r.innermost_cmd()
        res.status = r.finish()
    except Reject as e:
        res.status = "reject"
        res.pos = i
        res.reason = e.reason
        res.cmd = e.cmd
        res.ext = e.ext
    res.taints = list(r.taints)
    res.tree = r.tree
    res.ext_uses = r.ext_uses
    return res


CLOSERS = [(";", b";"), ("}", b"}"), (")", b")"), ("]", b"]"), ("{", b"{"),
           ("string", b'"a"'), ("number", b"1"), ("identifier", b"true"), ("identifier", b"keep")]


def find_completion(tokens, loaded=None, maxlen=5):
    """Shortest sequence of closer tokens that makes the prefix an accepted, untainted script."""
    base = [(t[0], t[1]) for t in tokens]
    frontier = [[]]
    for depth in range(maxlen + 1):
        nxt = []
        for suf in frontier:
            res = check(base + suf, loaded)
            if res.status == "accept" and not res.taints:
                return suf
            if res.status == "reject":
                continue
            if depth < maxlen:
                for c in CLOSERS:
                    nxt.append(suf + [c])
        frontier = nxt
        if len(frontier) > 40000:
            break
    return None
