"""R4: reference model of FiltersSet's editing operations: an ordered list of uniquely named
filters.  Written from the property text, independent of sievelib."""


class Exists(Exception):
    pass


class Model:
    def __init__(self):
        self.items = []          # dict(name, enabled, cid, desc)

    def _find(self, name):
        for i, f in enumerate(self.items):
            if f["name"] == name:
                return i
        return -1

    def add(self, name, cid):
        if self._find(name) >= 0:
            raise Exists()
        self.items.append(dict(name=name, enabled=True, cid=cid, desc=None))
        return None

    def update(self, old, new, cid):
        i = self._find(old)
        if i < 0:
            return False
        if new != old and self._find(new) >= 0:
            raise Exists()
        self.items[i]["name"] = new
        self.items[i]["cid"] = cid
        return True

    def replace(self, old, cid, new=None, desc=None):
        i = self._find(old)
        if i < 0:
            return False
        if new is None:
            new = old
        if new != old and self._find(new) >= 0:
            raise Exists()
        self.items[i]["name"] = new
        self.items[i]["cid"] = cid
        if desc is not None:
            self.items[i]["desc"] = desc
        return True

    def remove(self, name):
        i = self._find(name)
        if i < 0:
            return False
        del self.items[i]
        return True

    def enable(self, name):
        """True iff the filter exists and was disabled"""
        i = self._find(name)
        if i < 0:
            return False
        if self.items[i]["enabled"]:
            return False
        self.items[i]["enabled"] = True
        return True

    def disable(self, name):
        """True iff the filter exists (disabling twice keeps it disabled)"""
        i = self._find(name)
        if i < 0:
            return False
        self.items[i]["enabled"] = False
        return True

    def move(self, name, direction):
        i = self._find(name)
        if i < 0:
            return False
        j = i - 1 if direction == "up" else i + 1
        if j < 0 or j >= len(self.items):
            return False
        f = self.items.pop(i)
        self.items.insert(j, f)
        return True

    def get(self, name):
        i = self._find(name)
        return None if i < 0 else self.items[i]["cid"]

    def is_disabled(self, name):
        i = self._find(name)
        if i < 0:
            return True          # sievelib documents nothing; the suite does not pin it either
        return not self.items[i]["enabled"]
